//! Build-independent data: configuration vectors, operation vocabulary of the
//! lifecycle simulator, transcripts.  Everything here is serialisable: a run,
//! once materialised, is replayed from these values alone (no PRNG consulted).

use serde::{Deserialize, Serialize};

#[derive(Serialize, Deserialize, Clone, Debug, PartialEq, Eq, Hash, Default)]
pub struct CfgBits {
    pub dwarf: bool,
    pub names: bool,
    pub producers: bool,
    pub synthetic: bool,
    pub only_stable: bool,
    pub strict: bool,
    pub code_transform: bool,
    pub on_parse: bool,
    pub on_instr_loc: bool,
    /// attach the probe custom section (captures code-offset map and id->index
    /// map as seen by extension code); implies an on_parse callback
    #[serde(default)]
    pub probe: bool,
    /// call preserve_code_transform AFTER generate_dwarf (generate_dwarf(true) switches the capture on; a later
    /// preserve_code_transform(false) switches it off again while DWARF generation stays on)
    #[serde(default)]
    pub late_code_transform: bool,
}

impl CfgBits {
    pub fn walrus_default() -> CfgBits {
        CfgBits { names: true, producers: true, strict: true, ..Default::default() }
    }

    pub fn from_mask(m: u32) -> CfgBits {
        CfgBits {
            dwarf: m & 1 != 0,
            names: m & 2 != 0,
            producers: m & 4 != 0,
            synthetic: m & 8 != 0,
            only_stable: m & 16 != 0,
            strict: m & 32 != 0,
            code_transform: m & 64 != 0,
            on_parse: m & 128 != 0,
            on_instr_loc: m & 256 != 0,
            probe: m & 512 != 0,
            late_code_transform: false,
        }
    }

    pub fn mask(&self) -> u32 {
        (self.dwarf as u32)
            | (self.names as u32) << 1
            | (self.producers as u32) << 2
            | (self.synthetic as u32) << 3
            | (self.only_stable as u32) << 4
            | (self.strict as u32) << 5
            | (self.code_transform as u32) << 6
            | (self.on_parse as u32) << 7
            | (self.on_instr_loc as u32) << 8
            | (self.probe as u32) << 9
    }
}

#[derive(Serialize, Deserialize, Clone, Debug, PartialEq, Eq, Hash)]
pub enum FileTarget {
    /// a fresh file in the worker's scratch directory: the write succeeds
    Ok,
    /// /dev/full: open succeeds, write fails with ENOSPC
    NoSpace,
    /// a path under a directory that does not exist: ENOENT
    MissingDir,
    /// the scratch directory itself: EISDIR
    IsDir,
}

#[derive(Serialize, Deserialize, Clone, Debug, PartialEq, Eq, Hash)]
pub enum BodyKind {
    /// `unreachable`-free straight-line arithmetic returning the results
    Arith,
    /// nested block / loop / if-else with branches to enclosing sequences
    Control,
    /// calls existing functions with synthesised arguments
    Calls,
    /// touches existing globals / memories / tables
    Entities,
    /// uses instr_at / block_at / if_else_at positional insertion and dangling sequences
    Positional,
}

#[derive(Serialize, Deserialize, Clone, Debug, PartialEq, Eq, Hash)]
pub enum Edit {
    ExportFunc { pick: u32, name: String },
    ExportGlobal { pick: u32, name: String },
    ExportMemory { pick: u32, name: String },
    ExportTable { pick: u32, name: String },
    DeleteExport { pick: u32 },
    /// build a new function; `sig` picks params/results from a small pool
    BuildFunc { seed: u64, sig: u32, kind: BodyKind, export: bool, in_elem: bool, in_global: bool },
    AddGlobal { ty: u8, mutable: bool, export: bool },
    AddMemory { shared: bool, mem64: bool, export: bool },
    AddTable { externref: bool, export: bool },
    AddData { passive: bool, len: u32, use_in_func: bool },
    AddElem { kind: u8, n: u32 },
    ReplaceImported { pick: u32, seed: u64, kind: BodyKind },
    ReplaceExported { pick: u32, seed: u64, kind: BodyKind },
    SetStart { seed: u64 },
    ClearStart,
    /// insert a type-neutral instruction group into a parsed body
    InsertNeutral { func: u32, seq: u32, pos: u32, what: u8 },
    /// insert a terminator (`unreachable`; `return` in a function without results) into a parsed or
    /// built body: everything behind it in that sequence becomes dead code, the body stays well typed
    InsertTerminator { func: u32, seq: u32, pos: u32, what: u8 },
    /// the same kind of type-neutral insertion, but made directly on the public `InstrSeq::instrs` vector
    /// obtained through `LocalFunction::block_mut` (not through the builder): `n` x (`i32.const`, `drop`)
    InsertViaBlockMut { func: u32, seq: u32, pos: u32, n: u32 },
    /// a whole-function `ir::dfs_pre_order_mut` pass with a `VisitorMut` (what instrumentation passes do):
    /// what 0 appends (`i32.const 0`, `drop`) to every instruction sequence, what 1 rewrites every `i32.const k` to `k ^ 1`
    VisitMutPass { func: u32, what: u8 },
    /// `Module::add_import_{func,global,memory,table}` on a module that already has local items of that kind
    /// (the parser always creates imports first; the API does not ask for that), optionally exported
    AddImportLate { kind: u8, export: bool, flavour: u8 },
    /// attach a user-defined custom section that roots the `pick`-th function (`CustomSection::add_gc_roots`)
    /// and emits its index
    AddRootSection { pick: u32 },
    RenameFunc { pick: u32, name: Option<String> },
    RenameModule { name: Option<String> },
    RenameLocal { pick: u32, name: Option<String> },
    RenameOther { which: u8, pick: u32, name: Option<String> },
    Producers { field: u8, name: String, version: String },
}

#[derive(Serialize, Deserialize, Clone, Debug, PartialEq, Eq, Hash)]
pub enum Op {
    Emit,
    EmitFile { target: FileTarget },
    Gc,
    /// emit now, re-parse those bytes under `cfg` and continue the history on
    /// the new module
    Reparse { cfg: CfgBits },
    /// read-only traversal of everything; must not change anything
    Query,
    CustomAddRaw { name: String, data: Vec<u8> },
    CustomAddTyped { tag: u8, len: u32 },
    /// delete the `nth` custom-section id ever seen (dead ids are aimed at on purpose)
    CustomDelete { nth: u32 },
    CustomRemoveRaw { name: String },
    CustomGet { nth: u32 },
    /// ambient: create and drop `n` unrelated arenas (moves the process-global counter)
    BurnArenas { n: u32 },
    /// ambient: parse+emit+drop an unrelated module in the same process
    Unrelated { which: u32 },
    Edit(Edit),
}

impl Op {
    pub fn kind(&self) -> &'static str {
        match self {
            Op::Emit => "emit",
            Op::EmitFile { target } => match target {
                FileTarget::Ok => "emit_file_ok",
                FileTarget::NoSpace => "emit_file_enospc",
                FileTarget::MissingDir => "emit_file_enoent",
                FileTarget::IsDir => "emit_file_eisdir",
            },
            Op::Gc => "gc",
            Op::Reparse { .. } => "reparse",
            Op::Query => "query",
            Op::CustomAddRaw { .. } => "custom_add_raw",
            Op::CustomAddTyped { .. } => "custom_add_typed",
            Op::CustomDelete { .. } => "custom_delete",
            Op::CustomRemoveRaw { .. } => "custom_remove_raw",
            Op::CustomGet { .. } => "custom_get",
            Op::BurnArenas { .. } => "burn_arenas",
            Op::Unrelated { .. } => "unrelated",
            Op::Edit(e) => match e {
                Edit::ExportFunc { .. } => "edit_export_func",
                Edit::ExportGlobal { .. } => "edit_export_global",
                Edit::ExportMemory { .. } => "edit_export_memory",
                Edit::ExportTable { .. } => "edit_export_table",
                Edit::DeleteExport { .. } => "edit_delete_export",
                Edit::BuildFunc { .. } => "edit_build_func",
                Edit::AddGlobal { .. } => "edit_add_global",
                Edit::AddMemory { .. } => "edit_add_memory",
                Edit::AddTable { .. } => "edit_add_table",
                Edit::AddData { .. } => "edit_add_data",
                Edit::AddElem { .. } => "edit_add_elem",
                Edit::ReplaceImported { .. } => "edit_replace_imported",
                Edit::ReplaceExported { .. } => "edit_replace_exported",
                Edit::SetStart { .. } => "edit_set_start",
                Edit::ClearStart => "edit_clear_start",
                Edit::InsertNeutral { .. } => "edit_insert_neutral",
                Edit::InsertTerminator { .. } => "edit_insert_terminator",
                Edit::InsertViaBlockMut { .. } => "edit_insert_via_block_mut",
                Edit::AddImportLate { .. } => "edit_add_import_late",
                Edit::AddRootSection { .. } => "edit_add_root_section",
                Edit::VisitMutPass { .. } => "edit_visitor_mut_pass",
                Edit::RenameFunc { .. } => "edit_rename_func",
                Edit::RenameModule { .. } => "edit_rename_module",
                Edit::RenameLocal { .. } => "edit_rename_local",
                Edit::RenameOther { .. } => "edit_rename_other",
                Edit::Producers { .. } => "edit_producers",
            },
        }
    }
}

/// One custom section as the module reports it through its public API.
#[derive(Serialize, Deserialize, Clone, Debug, PartialEq, Eq, Hash)]
pub struct CustomSeen {
    pub name: String,
    pub raw: bool,
    pub data: Vec<u8>,
}

#[derive(Serialize, Deserialize, Clone, Debug, PartialEq, Eq)]
pub enum StepOut {
    Parsed { ok: bool, err: String, on_parse_calls: u32 },
    /// `Op::Reparse`: the bytes emitted for the re-parse, then the parse outcome
    Reparsed { emitted: Vec<u8>, ok: bool, err: String, on_parse_calls: u32 },
    Emit { bytes: Vec<u8> },
    EmitFile { ok: bool, err: String, file: Option<Vec<u8>> },
    Gc,
    Query { digest: u64, customs: Vec<CustomSeen>, counts: Vec<u32> },
    /// result of a custom-section operation, as (found, name, data) where relevant
    Custom { found: bool, name: String, data: Vec<u8>, panicked: bool },
    Ambient,
    /// whether the edit applied (its precondition held) and a short note
    Edit { applied: bool, note: String },
    Panic { msg: String },
    /// not executed because an earlier step ended the history
    Skipped,
}

impl StepOut {
    pub fn is_panic(&self) -> bool {
        matches!(self, StepOut::Panic { .. })
    }
}

#[derive(Serialize, Deserialize, Clone, Debug, PartialEq, Eq, Default)]
pub struct Transcript {
    /// step 0 is the initial parse; step k>0 is ops[k-1]
    pub steps: Vec<StepOut>,
}

impl Transcript {
    pub fn digest(&self) -> u64 {
        crate::prng::fnv(serde_json::to_string(self).unwrap().as_bytes())
    }

    pub fn first_panic(&self) -> Option<(usize, &str)> {
        self.steps.iter().enumerate().find_map(|(i, s)| match s {
            StepOut::Panic { msg } => Some((i, msg.as_str())),
            _ => None,
        })
    }
}

#[derive(Serialize, Deserialize, Clone, Debug, PartialEq, Eq, Default)]
pub struct Ambient {
    /// entropy served to std's RandomState on the run's thread
    pub entropy: u64,
    /// arenas created and dropped before the first operation
    pub arena_burn: u32,
    /// front padding class of the allocator wrapper (0 = off)
    pub heap_pad: u8,
}

/// Knobs of the simulated scheduler for one run.
#[derive(Serialize, Deserialize, Clone, Debug, PartialEq, Eq)]
pub struct SimKnobs {
    pub threads: u32,
    /// out of 65536
    pub steal_p: u32,
    /// every k-th log record / on_instr_loc call is a scheduling point; 0 = never
    pub log_thin: u32,
    pub strategy: Strategy,
    pub sched_seed: u64,
    /// every k-th control-flow edge executed by the parallel walrus build is a scheduling point
    /// (SanitizerCoverage trace-pc-guard hook); 0 = edges are not scheduling points
    #[serde(default)]
    pub edge_thin: u32,
    /// every k-th ATOMIC operation executed by code generated in the parallel walrus build (its own, std::sync's
    /// and dependency generics instantiated there) is a scheduling point, taken right BEFORE the operation
    /// (ThreadSanitizer-ABI hook, tsanrt.rs); 0 = atomic operations are not scheduling points
    #[serde(default)]
    pub atomic_thin: u32,
    /// injected fault: a task parked in a futex wait (Mutex / Condvar / Once / park) is woken spuriously with
    /// probability 1/k per scheduling round it sits out; 0 = never (the wait ends only by a matching wake)
    #[serde(default)]
    pub spurious_wake: u32,
}

#[derive(Serialize, Deserialize, Clone, Debug, PartialEq, Eq)]
pub enum Strategy {
    /// uniform over runnable tasks at every scheduling point
    Random,
    /// keep running the current task with probability keep/256, else uniform
    Sticky { keep: u8 },
    /// PCT-like: random task priorities, `depth` priority change points spread over `horizon` steps
    Pct { depth: u8, horizon: u32 },
    /// always the lowest runnable task id (deterministic baseline)
    Lowest,
    /// keep running the current task; at each scheduling point switch to a random other task with
    /// probability 1/q (long uninterrupted stints, rare switches at arbitrary points)
    Bursty { q: u32 },
}

/// The recorded decisions of one simulated schedule.
#[derive(Serialize, Deserialize, Clone, Debug, PartialEq, Eq, Default)]
pub struct ScheduleRec {
    /// task chosen at each scheduling point
    pub tasks: Vec<u32>,
    /// values served through shuttle's data source (steal draws)
    pub randoms: Vec<u64>,
}

#[derive(Serialize, Deserialize, Clone, Debug, PartialEq, Eq)]
pub struct InputRef {
    /// "fixture:<path>", "dodrio", "gen:<seed>", "bytes"
    pub source: String,
    pub bytes_hex: String,
}

/// A fully materialised lifecycle run.
#[derive(Serialize, Deserialize, Clone, Debug, PartialEq, Eq)]
pub struct RunSpec {
    pub input: InputRef,
    pub cfg: CfgBits,
    pub ops: Vec<Op>,
    pub ambient: Ambient,
    /// Some(..) => the `walrus_par` build inside a simulated schedule
    pub sim: Option<SimKnobs>,
    /// Some(..) => replay exactly these decisions instead of drawing them
    pub schedule: Option<ScheduleRec>,
}

// ---------------------------------------------------------------------------
// C17: operation histories on the public collections

#[derive(Serialize, Deserialize, Clone, Copy, Debug, PartialEq, Eq, Hash)]
pub enum CollKind {
    Types,
    Funcs,
    Globals,
    Memories,
    Tables,
    Data,
    Elements,
    Exports,
    Imports,
    Locals,
    Customs,
}

pub const ALL_COLLS: &[CollKind] = &[
    CollKind::Types,
    CollKind::Funcs,
    CollKind::Globals,
    CollKind::Memories,
    CollKind::Tables,
    CollKind::Data,
    CollKind::Elements,
    CollKind::Exports,
    CollKind::Imports,
    CollKind::Locals,
    CollKind::Customs,
];

#[derive(Serialize, Deserialize, Clone, Debug, PartialEq, Eq, Hash)]
pub enum COp {
    /// add a new item; `arg` selects a variant (signature from the pool, import vs local, ...)
    Add { m: u8, coll: CollKind, arg: u32 },
    /// delete the `nth` id EVER issued by that collection (a dead one is the injected fault)
    Delete { m: u8, coll: CollKind, nth: u32 },
    /// look up the `nth` id ever issued (dead ones must be refused)
    Get { m: u8, coll: CollKind, nth: u32 },
    /// finder (`find`, `by_name`, `get_func`, `remove`-by-name ...) with a key derived from `arg`
    Find { m: u8, coll: CollKind, arg: u32 },
    /// compare iteration with the model
    Iter { m: u8, coll: CollKind },
    /// `FunctionBuilder::new`: adds (or finds) a function type and an entry type
    BuilderNew { m: u8, sig: u32 },
    /// ambient: move the process-global arena counter
    Burn { n: u32 },
    /// injected fault: use the `nth` id issued by module `from` on module `to` (a different module):
    /// it must be refused, never resolve to one of `to`'s items
    Foreign { from: u8, to: u8, coll: CollKind, nth: u32 },
}

#[derive(Serialize, Deserialize, Clone, Debug, Default)]
pub struct CollReport {
    pub steps_done: u32,
    /// (step, oracle id, detail)
    pub failure: Option<(u32, String, String)>,
    pub counters: Vec<(String, u64)>,
    /// hash of the model after every step
    pub state_hashes: Vec<u64>,
}
