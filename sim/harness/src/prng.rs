//! One integer decides everything: VERIF_SEED -> SplitMix64 -> per-property
//! stream -> per-run seed -> xoshiro256**.  No dependence on the `rand` crate.

#[derive(Clone, Debug)]
pub struct SplitMix64(pub u64);

impl SplitMix64 {
    pub fn next(&mut self) -> u64 {
        self.0 = self.0.wrapping_add(0x9E3779B97F4A7C15);
        let mut z = self.0;
        z = (z ^ (z >> 30)).wrapping_mul(0xBF58476D1CE4E5B9);
        z = (z ^ (z >> 27)).wrapping_mul(0x94D049BB133111EB);
        z ^ (z >> 31)
    }
}

pub fn mix64(a: u64, b: u64) -> u64 {
    let mut s = SplitMix64(a ^ b.rotate_left(32) ^ 0xD1B54A32D192ED03);
    s.next();
    s.next()
}

/// FNV-1a over bytes, 64 bit: the digest used for event logs and outputs.
pub fn fnv(bytes: &[u8]) -> u64 {
    let mut h = 0xcbf29ce484222325u64;
    for b in bytes {
        h ^= *b as u64;
        h = h.wrapping_mul(0x100000001b3);
    }
    h
}

pub fn fnv_str(s: &str) -> u64 {
    fnv(s.as_bytes())
}

/// Seed of run `index` of property `prop` under `verif_seed`.
pub fn run_seed(verif_seed: u64, prop: &str, index: u64) -> u64 {
    let master = mix64(verif_seed, 0x77616c727573); // "walrus"
    let stream = mix64(master, fnv_str(prop));
    mix64(stream, index.wrapping_mul(0x9E3779B97F4A7C15) ^ 0xA5A5)
}

#[derive(Clone, Debug)]
pub struct Rng {
    s: [u64; 4],
}

impl Rng {
    pub fn new(seed: u64) -> Rng {
        let mut sm = SplitMix64(seed);
        Rng { s: [sm.next(), sm.next(), sm.next(), sm.next()] }
    }

    /// Independent child stream, named, so adding draws in one place does not
    /// shift another.
    pub fn fork(&self, label: &str) -> Rng {
        Rng::new(mix64(self.s[0] ^ self.s[2], fnv_str(label)))
    }

    pub fn u64(&mut self) -> u64 {
        let result = self.s[1].wrapping_mul(5).rotate_left(7).wrapping_mul(9);
        let t = self.s[1] << 17;
        self.s[2] ^= self.s[0];
        self.s[3] ^= self.s[1];
        self.s[1] ^= self.s[2];
        self.s[0] ^= self.s[3];
        self.s[2] ^= t;
        self.s[3] = self.s[3].rotate_left(45);
        result
    }

    pub fn u32(&mut self) -> u32 {
        (self.u64() >> 32) as u32
    }

    /// Uniform in 0..n (n > 0).
    pub fn below(&mut self, n: u64) -> u64 {
        debug_assert!(n > 0);
        // multiply-shift; bias negligible for our n
        ((self.u64() as u128 * n as u128) >> 64) as u64
    }

    pub fn usize_below(&mut self, n: usize) -> usize {
        self.below(n as u64) as usize
    }

    /// Uniform in lo..=hi.
    pub fn range(&mut self, lo: u64, hi: u64) -> u64 {
        lo + self.below(hi - lo + 1)
    }

    pub fn chance(&mut self, num: u64, den: u64) -> bool {
        self.below(den) < num
    }

    pub fn bool(&mut self) -> bool {
        self.u64() & 1 == 1
    }

    pub fn pick<'a, T>(&mut self, xs: &'a [T]) -> &'a T {
        &xs[self.usize_below(xs.len())]
    }

    pub fn bytes(&mut self, n: usize) -> Vec<u8> {
        let mut v = Vec::with_capacity(n);
        while v.len() < n {
            let x = self.u64().to_le_bytes();
            let k = (n - v.len()).min(8);
            v.extend_from_slice(&x[..k]);
        }
        v
    }

    /// Small numbers mostly, occasionally large: geometric-ish.
    pub fn small(&mut self, max: u64) -> u64 {
        if max == 0 {
            return 0;
        }
        let r = self.below(100);
        let cap = if r < 60 {
            max.min(3)
        } else if r < 90 {
            max.min(12)
        } else {
            max
        };
        self.range(0, cap)
    }
}
