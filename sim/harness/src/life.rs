//! Executing a materialised lifecycle run on either build.

use crate::framework::Env;
use crate::simrt::{self, SimOutcome};
use crate::types::*;

pub struct Ran {
    pub transcript: Option<Transcript>,
    /// set when the run did not complete (simulated deadlock, harness limit, ...)
    pub abort: Option<String>,
    pub sim: Option<SimOutcome<Transcript>>,
}

fn heap_pad(n: u8, seed: u64) -> Vec<Vec<u8>> {
    // address perturbation: allocations of seeded sizes held for the duration
    // of the run shift every later allocation of the run
    let mut r = crate::prng::Rng::new(seed ^ 0x5ca1ab1e);
    (0..(n as usize * 7)).map(|_| Vec::with_capacity(8 + r.below(4096) as usize)).collect()
}

/// Serial build, fresh OS thread, given entropy.
pub fn run_ser(env: &Env, input: &[u8], cfg: &CfgBits, ops: &[Op], ambient: &Ambient, run_tag: u64) -> Ran {
    run_ser_stack(env, input, cfg, ops, ambient, run_tag, 16 << 20)
}

pub fn run_ser_stack(env: &Env, input: &[u8], cfg: &CfgBits, ops: &[Op], ambient: &Ambient, run_tag: u64, stack: usize) -> Ran {
    let (input, cfg, ops, amb) = (input.to_vec(), cfg.clone(), ops.to_vec(), ambient.clone());
    let (unrelated, scratch) = (env.unrelated.clone(), env.scratch.clone());
    let r = simrt::run_plain(Some(ambient.entropy), stack, move || {
        let _pad = heap_pad(amb.heap_pad, amb.entropy);
        let ctx = crate::ser::Ctx { unrelated: &unrelated, scratch: &scratch, run_tag };
        crate::ser::run_history(&input, &cfg, &ops, amb.arena_burn, &ctx)
    });
    match r {
        Ok(t) => Ran { transcript: Some(t), abort: None, sim: None },
        Err(e) => Ran { transcript: None, abort: Some(e), sim: None },
    }
}

/// Parallel build inside one simulated schedule.
pub fn run_par(
    env: &Env,
    input: &[u8],
    cfg: &CfgBits,
    ops: &[Op],
    ambient: &Ambient,
    knobs: &SimKnobs,
    replay: Option<(ScheduleRec, bool)>,
    run_tag: u64,
) -> Ran {
    let (input, cfg, ops, amb) = (input.to_vec(), cfg.clone(), ops.to_vec(), ambient.clone());
    let (unrelated, scratch) = (env.unrelated.clone(), env.scratch.clone());
    let mut o = simrt::run_sim(knobs, replay, Some(ambient.entropy), move || {
        let _pad = heap_pad(amb.heap_pad, amb.entropy);
        let ctx = crate::par::Ctx { unrelated: &unrelated, scratch: &scratch, run_tag };
        crate::par::run_history(&input, &cfg, &ops, amb.arena_burn, &ctx)
    });
    let t = o.value.take();
    let abort = o.abort_msg.clone();
    Ran { transcript: t, abort, sim: Some(o) }
}

/// Compare two transcripts the way the properties need: decisions, panic
/// parity and every produced byte; panic texts and error texts are not compared.
pub fn first_difference(a: &Transcript, b: &Transcript) -> Option<(usize, &'static str, String)> {
    if a.steps.len() != b.steps.len() {
        return Some((0, "length", format!("{} vs {} steps", a.steps.len(), b.steps.len())));
    }
    for (i, (x, y)) in a.steps.iter().zip(b.steps.iter()).enumerate() {
        match (x, y) {
            (StepOut::Parsed { ok: o1, on_parse_calls: c1, .. }, StepOut::Parsed { ok: o2, on_parse_calls: c2, .. }) => {
                if o1 != o2 {
                    return Some((i, "decision", format!("accept/reject differs: {} vs {}", o1, o2)));
                }
                if c1 != c2 {
                    return Some((i, "callback", format!("on_parse calls differ: {} vs {}", c1, c2)));
                }
            }
            (
                StepOut::Reparsed { emitted: b1, ok: o1, on_parse_calls: c1, .. },
                StepOut::Reparsed { emitted: b2, ok: o2, on_parse_calls: c2, .. },
            ) => {
                if b1 != b2 {
                    return Some((i, "bytes", bytes_diff(b1, b2)));
                }
                if o1 != o2 {
                    return Some((i, "decision", format!("accept/reject differs: {} vs {}", o1, o2)));
                }
                if c1 != c2 {
                    return Some((i, "callback", format!("on_parse calls differ: {} vs {}", c1, c2)));
                }
            }
            (StepOut::Panic { .. }, StepOut::Panic { .. }) => {}
            (StepOut::Panic { msg }, _) => return Some((i, "panic", format!("only the first panicked: {}", scrub(msg)))),
            (_, StepOut::Panic { msg }) => return Some((i, "panic", format!("only the second panicked: {}", scrub(msg)))),
            (StepOut::Emit { bytes: b1 }, StepOut::Emit { bytes: b2 }) => {
                if b1 != b2 {
                    return Some((i, "bytes", bytes_diff(b1, b2)));
                }
            }
            (StepOut::EmitFile { ok: o1, err: e1, file: f1 }, StepOut::EmitFile { ok: o2, err: e2, file: f2 }) => {
                if o1 != o2 || e1 != e2 {
                    return Some((i, "io", format!("file emit outcome differs: {}/{} vs {}/{}", o1, e1, o2, e2)));
                }
                if f1 != f2 {
                    return Some((i, "bytes", "emitted files differ".to_string()));
                }
            }
            (x, y) => {
                if x != y {
                    return Some((i, "step", format!("step results differ: {} vs {}", brief(x), brief(y))));
                }
            }
        }
    }
    None
}

pub fn bytes_diff(a: &[u8], b: &[u8]) -> String {
    let n = a.iter().zip(b.iter()).position(|(x, y)| x != y).unwrap_or(a.len().min(b.len()));
    format!("lengths {} vs {}, first differing byte at {:#x}", a.len(), b.len(), n)
}

pub fn brief(s: &StepOut) -> String {
    match s {
        StepOut::Parsed { ok, .. } => format!("parsed(ok={})", ok),
        StepOut::Reparsed { emitted, ok, .. } => format!("reparsed({} bytes, ok={})", emitted.len(), ok),
        StepOut::Emit { bytes } => format!("emit({} bytes)", bytes.len()),
        StepOut::EmitFile { ok, err, .. } => format!("emit_file(ok={},{})", ok, err),
        StepOut::Gc => "gc".into(),
        StepOut::Query { digest, counts, .. } => format!("query({:016x},{:?})", digest, counts),
        StepOut::Custom { found, name, data, .. } => format!("custom(found={},{:?},{}B)", found, name, data.len()),
        StepOut::Ambient => "ambient".into(),
        StepOut::Edit { applied, note } => format!("edit({},{})", applied, note),
        StepOut::Panic { msg } => format!("panic({})", scrub(msg)),
        StepOut::Skipped => "skipped".into(),
    }
}

/// Remove process-dependent parts (arena numbers) from a panic text.
pub fn scrub(msg: &str) -> String {
    let mut out = String::new();
    let mut rest = msg;
    while let Some(p) = rest.find("arena_id: ") {
        out.push_str(&rest[..p]);
        out.push_str("arena_id: _");
        let tail = &rest[p + 10..];
        let n = tail.find(|c: char| !c.is_ascii_digit()).unwrap_or(tail.len());
        rest = &tail[n..];
    }
    out.push_str(rest);
    out.chars().take(240).collect()
}

/// Why a robust parallel run produced no result.
pub enum StuckErr {
    /// (worker processes) the process is tainted by the stuck run: restart a fresh process at this level
    Respawn(u8),
    Final(String),
}

/// knobs of preemption level `level`: 0 as planned, 1 without edge points, 2 task-granular
pub fn knobs_at_level(knobs: &SimKnobs, level: u8) -> SimKnobs {
    let mut k = knobs.clone();
    if level >= 1 {
        k.edge_thin = 0;
    }
    if level >= 2 {
        k.log_thin = 0;
        k.atomic_thin = 0;
    }
    k
}

/// `run_par` with the coarser-preemption retry chain: a task preempted while it holds a std lock blocks the
/// single-threaded simulation (an artefact of cooperative scheduling, not of the code under test).
/// Returns the run, the knobs that were finally used and the number of coarsenings.  A stuck run leaves its
/// threads (and whatever lock they hold) behind, so a worker process does not retry in place: it asks to be
/// restarted at the next level (`StuckErr::Respawn`); the driver / replay process retries in place.
pub fn run_par_robust(
    env: &Env,
    input: &[u8],
    cfg: &CfgBits,
    ops: &[Op],
    ambient: &Ambient,
    knobs: &SimKnobs,
    replay: Option<(ScheduleRec, bool)>,
    run_tag: u64,
) -> Result<(Ran, SimKnobs, u32), StuckErr> {
    let replaying = replay.is_some();
    let is_stuck = |r: &Ran| r.abort.as_deref().map(|m| m.starts_with("STUCK-IN-SIM")).unwrap_or(false);
    let mut level = if replaying { 0 } else { crate::simrt::start_level() };
    let mut replay = replay;
    let mut retries = level as u32;
    loop {
        let k = knobs_at_level(knobs, level);
        let ran = run_par(env, input, cfg, ops, ambient, &k, replay.take(), run_tag);
        if !is_stuck(&ran) {
            return Ok((ran, k, retries));
        }
        if replaying {
            return Err(StuckErr::Final("the replayed schedule got stuck (STUCK-IN-SIM)".into()));
        }
        // level 1 equals level 0 when the plan had no edge points
        let next = if level == 0 && k.edge_thin != 0 { 1 } else { 2 };
        if level >= 2 {
            return Err(StuckErr::Final("the simulated run made no progress even at task granularity (STUCK-IN-SIM)".into()));
        }
        if crate::simrt::respawn_mode() {
            return Err(StuckErr::Respawn(next));
        }
        level = next;
        retries += 1;
    }
}
