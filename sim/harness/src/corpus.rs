//! Inputs: the tracked fixtures of /repo assembled with the `wat` crate, the
//! real-world benchmark module, and (gen.rs) generated modules.

use std::path::{Path, PathBuf};

#[derive(Clone, Debug)]
pub struct Input {
    pub source: String,
    pub bytes: Vec<u8>,
}

fn walk(dir: &Path, out: &mut Vec<PathBuf>) {
    let Ok(rd) = std::fs::read_dir(dir) else { return };
    let mut entries: Vec<PathBuf> = rd.filter_map(|e| e.ok().map(|e| e.path())).collect();
    entries.sort();
    for p in entries {
        if p.is_dir() {
            walk(&p, out);
        } else if matches!(p.extension().and_then(|e| e.to_str()), Some("wat") | Some("wast")) {
            out.push(p);
        }
    }
}

pub fn repo_root() -> PathBuf {
    PathBuf::from(std::env::var("WALRUS_REPO").unwrap_or_else(|_| "/repo".to_string()))
}

/// Every `.wat`/`.wast` under crates/tests/tests that the cached `wat` crate
/// assembles (valid or not: the `invalid/` fixtures assemble to invalid
/// modules, which is what C05 wants), sorted by path; then dodrio.
pub fn load() -> Vec<Input> {
    let root = repo_root();
    let mut files = Vec::new();
    walk(&root.join("crates/tests/tests"), &mut files);
    let mut out = Vec::new();
    for p in files {
        let Ok(text) = std::fs::read_to_string(&p) else { continue };
        if let Ok(bytes) = wat::parse_str(&text) {
            let rel = p.strip_prefix(&root).unwrap_or(&p).display().to_string();
            out.push(Input { source: format!("fixture:{}", rel), bytes });
        }
    }
    if let Ok(bytes) = std::fs::read(root.join("benches/fixtures/dodrio-todomvc.wasm")) {
        out.push(Input { source: "dodrio".to_string(), bytes });
    }
    out
}
