//! The independent observer for validity: wasmparser's stand-alone validator,
//! configured from the harness's OWN statement of walrus's documented feature
//! set (not from walrus's `get_wasmparser_wasm_features`).

use wasmparser::{Validator, WasmFeatures};

/// walrus's documented supported feature set (ModuleConfig docs + README):
/// the finished proposals, plus multi-memory, memory64 and threads unless
/// `only_stable_features` is set.
pub fn features(only_stable: bool) -> WasmFeatures {
    let mut f = WasmFeatures::empty();
    f |= WasmFeatures::FLOATS;
    f |= WasmFeatures::MUTABLE_GLOBAL;
    f |= WasmFeatures::SATURATING_FLOAT_TO_INT;
    f |= WasmFeatures::SIGN_EXTENSION;
    f |= WasmFeatures::MULTI_VALUE;
    f |= WasmFeatures::REFERENCE_TYPES;
    f |= WasmFeatures::BULK_MEMORY;
    f |= WasmFeatures::SIMD;
    f |= WasmFeatures::RELAXED_SIMD;
    f |= WasmFeatures::TAIL_CALL;
    if !only_stable {
        f |= WasmFeatures::MULTI_MEMORY;
        f |= WasmFeatures::MEMORY64;
        f |= WasmFeatures::THREADS;
    }
    f
}

pub fn validate(bytes: &[u8], only_stable: bool) -> Result<(), String> {
    let mut v = Validator::new_with_features(features(only_stable));
    v.validate_all(bytes).map(|_| ()).map_err(|e| e.to_string())
}
