//! walrus-dst: deterministic simulation with fault injection for walrus.
#![allow(clippy::too_many_arguments, clippy::type_complexity)]

mod corpus;
mod dwarfgen;
mod faults;
mod framework;
mod gen;
mod inputs;
mod life;
mod opzoo;
mod prng;
mod props;
mod simrt;
#[cfg(not(feature = "native"))]
mod tsanrt;
mod types;
mod validator;
mod wasmsplit;

/// /repo with default features: the serial build, the reference.
pub mod ser {
    pub use walrus_ser as walrus;
    pub const PARALLEL: bool = false;
    include!("scen/all.rs");
}

/// /repo with feature "parallel", on the simulated rayon-core.
pub mod par {
    pub use walrus_par as walrus;
    pub const PARALLEL: bool = true;
    include!("scen/all.rs");
}

use framework::{DriverOpts, Tier};
use std::path::PathBuf;
use std::time::Duration;

fn arg_after(args: &[String], flag: &str) -> Option<String> {
    args.iter().position(|a| a == flag).and_then(|i| args.get(i + 1).cloned())
}

fn tier_of(s: &str) -> Tier {
    match s {
        "thorough" => Tier::Thorough,
        _ => Tier::Quick,
    }
}

fn usage() -> ! {
    eprintln!("usage: walrus-dst check <ID> <quick|thorough> [--runs N] [--workers K] | replay <ID> <file> | worker ... | gentest [N] | selftest");
    std::process::exit(2)
}

fn main() {
    // anyhow captures a backtrace per error when these are set: never on our paths
    std::env::remove_var("RUST_BACKTRACE");
    std::env::remove_var("RUST_LIB_BACKTRACE");
    simrt::install_logger();
    // panics inside the code under test are data, not output
    simrt::install_panic_hook();
    simrt::warm_up();
    let tls_syms = simrt::init_tls_mode();
    let args: Vec<String> = std::env::args().collect();
    if !tls_syms.is_empty() && args.get(1).map(|a| a == "check").unwrap_or(false) {
        println!("NOTE: the parallel build uses {} thread-local symbol(s) (e.g. {}): simulated schedules are task-granular for this tree (DESIGN.md section 11 item 17)", tls_syms.len(), tls_syms[0].chars().take(80).collect::<String>());
    }
    if args.len() < 2 {
        usage();
    }
    let verif_seed: u64 = arg_after(&args, "--seed")
        .or_else(|| std::env::var("VERIF_SEED").ok())
        .and_then(|s| s.parse().ok())
        .unwrap_or(1);
    match args[1].as_str() {
        "check" => {
            if args.len() < 4 {
                usage();
            }
            let Some(prop) = props::by_id(&args[2]) else {
                eprintln!("unknown property {}", args[2]);
                std::process::exit(2)
            };
            let tier = tier_of(&args[3]);
            let opts = DriverOpts {
                tier,
                verif_seed,
                workers: arg_after(&args, "--workers").and_then(|s| s.parse().ok()).unwrap_or(16),
                runs_override: arg_after(&args, "--runs").or_else(|| std::env::var("VERIF_RUNS").ok()).and_then(|s| s.parse().ok()),
                watchdog: Duration::from_secs(arg_after(&args, "--watchdog").and_then(|s| s.parse().ok()).unwrap_or(400)),
                minimise_budget: Duration::from_secs(if tier == Tier::Quick { 30 } else { 180 }),
                keep_digests: true,
                write_evidence: !args.iter().any(|a| a == "--no-evidence"),
            };
            let code = framework::check_main(prop, &opts, &|_, _| {});
            std::process::exit(code);
        }
        "worker" => {
            let Some(prop) = props::by_id(&args[2]) else { std::process::exit(2) };
            let tier = tier_of(&arg_after(&args, "--tier").unwrap_or_default());
            let from: u64 = arg_after(&args, "--from").and_then(|s| s.parse().ok()).unwrap_or(0);
            let to: u64 = arg_after(&args, "--to").and_then(|s| s.parse().ok()).unwrap_or(0);
            let step: u64 = arg_after(&args, "--step").and_then(|s| s.parse().ok()).unwrap_or(1);
            let progress = PathBuf::from(arg_after(&args, "--progress").unwrap_or_else(|| "/verif/work/progress".into()));
            let env = framework::make_env(verif_seed, tier, "wrk");
            framework::worker_main(prop, &env, from, to, step, &progress, args.iter().any(|a| a == "--digests"), arg_after(&args, "--first-level").and_then(|s| s.parse().ok()).unwrap_or(0));
            let _ = std::fs::remove_dir_all(&env.scratch);
        }
        "replay" => {
            if args.len() < 4 {
                usage();
            }
            let Some(prop) = props::by_id(&args[2]) else { std::process::exit(2) };
            // A recorded CRASH (signal / abort under the resource limits of the worker) kills the process that
            // replays it: run the replay in a child and report its death as the violation it is.
            let recorded_oracle = std::fs::read_to_string(&args[3]).ok().and_then(|s| serde_json::from_str::<serde_json::Value>(&s).ok()).and_then(|v| v["oracle"].as_str().map(|s| s.to_string())).unwrap_or_default();
            if (recorded_oracle.starts_with("crash:") || recorded_oracle.starts_with("timeout")) && std::env::var("WALRUS_DST_REPLAY_INNER").is_err() {
                let exe = std::env::current_exe().expect("current_exe");
                let limit = std::time::Duration::from_secs(std::env::var("WALRUS_DST_REPLAY_TIMEOUT").ok().and_then(|s| s.parse().ok()).unwrap_or(900));
                let mut child = match std::process::Command::new(exe).args(&args[1..]).env("WALRUS_DST_REPLAY_INNER", "1").spawn() {
                    Ok(c) => c,
                    Err(e) => {
                        eprintln!("HARNESS: cannot start the replay child: {}", e);
                        std::process::exit(2);
                    }
                };
                let t0 = std::time::Instant::now();
                let st = loop {
                    match child.try_wait() {
                        Ok(Some(st)) => break Some(st),
                        Ok(None) if t0.elapsed() > limit => {
                            let _ = child.kill();
                            let _ = child.wait();
                            break None;
                        }
                        Ok(None) => std::thread::sleep(std::time::Duration::from_millis(50)),
                        Err(_) => break None,
                    }
                };
                use std::os::unix::process::ExitStatusExt;
                match st {
                    None => {
                        println!("VIOLATION property={} replay={}", prop.id(), args[3]);
                        println!("  oracle=timeout:no_progress detail=the process replaying this input did not finish within {:?} (recorded: {})", limit, recorded_oracle);
                        std::process::exit(1);
                    }
                    Some(st) if st.signal().is_some() => {
                        println!("VIOLATION property={} replay={}", prop.id(), args[3]);
                        println!("  oracle=crash:signal{} detail=the process replaying this input under the worker's resource limits died with signal {} (recorded: {})", st.signal().unwrap(), st.signal().unwrap(), recorded_oracle);
                        std::process::exit(1);
                    }
                    Some(st) => std::process::exit(st.code().unwrap_or(2)),
                }
            }
            // the resource limits of a worker are part of the fault environment of the run
            prop.worker_init();
            let env = framework::make_env(verif_seed, Tier::Quick, "rpl");
            let r = framework::replay_file(prop, &env, std::path::Path::new(&args[3]));
            let _ = std::fs::remove_dir_all(&env.scratch);
            match r {
                Ok(Some(f)) => {
                    println!("VIOLATION property={} replay={}", prop.id(), args[3]);
                    println!("  oracle={} detail={}", f.oracle, f.detail.chars().take(400).collect::<String>());
                    std::process::exit(1);
                }
                Ok(None) => {
                    println!("REPLAY-PASS property={} file={}", prop.id(), args[3]);
                    std::process::exit(0);
                }
                Err(e) => {
                    eprintln!("HARNESS: {}", e);
                    std::process::exit(2);
                }
            }
        }
        "selftest" => {
            // determinism proof: the same run seeds executed at worker counts 1, 4 and 16 (different
            // processes, different real entropy / ASLR / arena-counter history underneath) must
            // produce identical per-run digests
            let n: u64 = arg_after(&args, "--runs").and_then(|s| s.parse().ok()).unwrap_or(1500);
            let only = arg_after(&args, "--prop");
            let mut bad = 0u64;
            let mut total = 0u64;
            for id in props::ALL {
                if let Some(o) = &only {
                    if o != id {
                        continue;
                    }
                }
                let prop = props::by_id(id).unwrap();
                let mut maps = Vec::new();
                for w in [1usize, 4, 16] {
                    let opts = DriverOpts {
                        tier: Tier::Quick,
                        verif_seed,
                        workers: w,
                        runs_override: Some(n),
                        watchdog: Duration::from_secs(120),
                        minimise_budget: Duration::from_secs(1),
                        keep_digests: true,
                        write_evidence: false,
                    };
                    let agg = framework::run_batch(prop, &opts, n);
                    maps.push(agg.digests);
                }
                let mut mism = 0;
                for i in 0..n {
                    let a = maps[0].get(&i);
                    if a.is_none() || maps[1].get(&i) != a || maps[2].get(&i) != a {
                        mism += 1;
                        if mism <= 3 {
                            eprintln!("NONDETERMINISM {} run {}: digests {:?} {:?} {:?}", id, i, a, maps[1].get(&i), maps[2].get(&i));
                        }
                    }
                }
                println!("selftest-determinism {}: {} run seeds x worker counts {{1,4,16}}: {} mismatches", id, n, mism);
                bad += mism;
                total += n;
            }
            println!("selftest-determinism: {} run seeds, {} mismatches", total, bad);
            std::process::exit(if bad == 0 { 0 } else { 2 });
        }
        "miri-c09" => {
            // Miri leg (real rayon pool, Miri's scheduler is the simulator, -Zmiri-seed is the schedule):
            // tiny generated modules, parse+gc+emit on the parallel build vs the serial build, in-process.
            let n: u64 = args.get(2).and_then(|s| s.parse().ok()).unwrap_or(2);
            let threads: u32 = args.get(3).and_then(|s| s.parse().ok()).unwrap_or(3);
            let only: Option<u64> = arg_after(&args, "--only").and_then(|s| s.parse().ok());
            let mut bad = 0;
            for i in 0..n {
                if let Some(o) = only {
                    if o != i {
                        continue;
                    }
                }
                let mut r = prng::Rng::new(prng::run_seed(verif_seed, "miri-c09", i));
                let mut p = gen::GenParams::draw(&mut r, 6);
                p.n_funcs = 4 + (i % 5) as u32;
                p.size_mode = 0;
                p.n_customs = 0;
                p.names = 0;
                p.producers = 0;
                if i % 2 == 1 {
                    p.plant_errors = 1 + (i % 3) as u32;
                }
                let g = gen::generate(&p);
                let mut cfg = types::CfgBits::walrus_default();
                cfg.code_transform = true;
                cfg.probe = true;
                let ops = vec![types::Op::Gc, types::Op::Emit];
                let (b1, c1, o1) = (g.bytes.clone(), cfg.clone(), ops.clone());
                let scratch = std::path::PathBuf::from("/tmp");
                let s1 = scratch.clone();
                let tser = simrt::run_plain(Some(1), 4 << 20, move || {
                    let ctx = ser::Ctx { unrelated: &[], scratch: &s1, run_tag: 0 };
                    ser::run_history(&b1, &c1, &o1, 0, &ctx)
                })
                .expect("serial run");
                let knobs = types::SimKnobs { threads, steal_p: 0, log_thin: 4, strategy: types::Strategy::Random, sched_seed: 0, edge_thin: 0, atomic_thin: 0, spurious_wake: 0 };
                let (b2, c2, o2) = (g.bytes.clone(), cfg.clone(), ops.clone());
                let o = simrt::run_sim(&knobs, None, Some(2), move || {
                    let ctx = par::Ctx { unrelated: &[], scratch: &scratch, run_tag: 0 };
                    par::run_history(&b2, &c2, &o2, 0, &ctx)
                });
                match o.value {
                    Some(tpar) => {
                        if let Some((step, kind, detail)) = life::first_difference(&tser, &tpar) {
                            println!("MIRI-C09 MISMATCH case {} step {} {}: {}", i, step, kind, detail);
                            bad += 1;
                        }
                    }
                    None => {
                        println!("MIRI-C09 ABORT case {}: {:?}", i, o.abort_msg);
                        bad += 1;
                    }
                }
            }
            println!("miri-c09: {} cases, {} threads, {} mismatches", n, threads, bad);
            std::process::exit(if bad == 0 { 0 } else { 1 });
        }
        "canary" => {
            // is the entropy seam live?  same entropy => same std HashMap order; different => different
            let a = simrt::run_plain(Some(42), 1 << 20, simrt::hashmap_order_canary).unwrap();
            let b = simrt::run_plain(Some(42), 1 << 20, simrt::hashmap_order_canary).unwrap();
            let c = simrt::run_plain(Some(43), 1 << 20, simrt::hashmap_order_canary).unwrap();
            let d = simrt::run_plain(None, 1 << 20, simrt::hashmap_order_canary).unwrap();
            println!("canary same-entropy {:016x} {:016x} other-entropy {:016x} os-entropy {:016x}", a, b, c, d);
            std::process::exit(if a == b && a != c { 0 } else { 2 });
        }
        "reference" => props::c08::reference_main(),
        "dwarftest" => {
            // attach synthesised DWARF to every valid corpus module and round-trip with generate_dwarf(true)
            let corpus = corpus::load();
            let mut n = 0;
            for c in corpus.iter().filter(|c| validator::validate(&c.bytes, false).is_ok()) {
                let Some(b) = dwarfgen::attach(&c.bytes) else { continue };
                n += 1;
                let mut cfg = types::CfgBits::walrus_default();
                cfg.dwarf = true;
                let src = c.source.clone();
                let r = simrt::run_plain(Some(1), 16 << 20, move || {
                    let (m, _) = ser::parse_with(&b, &cfg);
                    let mut m = m.map_err(|e| format!("parse: {}", e))?;
                    let out = m.emit_wasm();
                    let names: Vec<String> = wasmsplit::customs(&out).unwrap_or_default().iter().map(|(n, _)| String::from_utf8_lossy(n).into_owned()).filter(|n| n.starts_with(".debug")).collect();
                    Ok::<_, String>((validator::validate(&out, false).is_ok(), names))
                });
                match r {
                    Ok(Ok((valid, names))) => {
                        if !valid || !names.iter().any(|n| n == ".debug_info") || !names.iter().any(|n| n == ".debug_line") {
                            println!("{}: valid={} debug sections {:?}", src, valid, names);
                        }
                    }
                    Ok(Err(e)) => println!("{}: {}", src, e),
                    Err(p) => println!("{}: PANIC {}", src, p.lines().next().unwrap_or("")),
                }
            }
            println!("dwarftest: {} modules", n);
        }
        "rt" => {
            // debug helper: rt <in.wasm> <cfg-mask> <out-prefix>: writes <prefix>.1.wasm (parse+emit) and <prefix>.2.wasm (again)
            let b = std::fs::read(&args[2]).unwrap();
            let cfg = types::CfgBits::from_mask(args[3].parse().unwrap());
            let (m, _) = ser::parse_with(&b, &cfg);
            let mut m = m.unwrap();
            let e1 = m.emit_wasm();
            std::fs::write(format!("{}.1.wasm", args[4]), &e1).unwrap();
            println!("e1 {} bytes valid={:?}", e1.len(), validator::validate(&e1, false));
            let (m2, _) = ser::parse_with(&e1, &cfg);
            let e2 = match m2 { Ok(mut m) => m.emit_wasm(), Err(e) => { println!("reparse failed: {}", e); return; } };
            std::fs::write(format!("{}.2.wasm", args[4]), &e2).unwrap();
            println!("e1 {} bytes valid={:?}; e2 {} bytes valid={:?}; equal={}", e1.len(), validator::validate(&e1, false), e2.len(), validator::validate(&e2, false), e1 == e2);
        }
        "bombtest" => {
            // validity and parse cost of the large-in-one-dimension modules (tuning aid)
            for kind in 10u8..19 {
                for n in [1000u32, 20_000, 100_000] {
                    let n = if kind == 10 { n / 100 } else { n };
                    let b = faults::nest_bomb(n, kind);
                    let v = validator::validate(&b, false).is_ok();
                    let t0 = std::time::Instant::now();
                    let b2 = b.clone();
                    let ok = simrt::run_plain(Some(1), 64 << 20, move || ser::walrus::Module::from_buffer(&b2).is_ok()).unwrap_or(false);
                    println!("kind {} n {} bytes {} valid {} walrus_ok {} parse {:?}", kind, n, b.len(), v, ok, t0.elapsed());
                }
            }
        }
        "gentest" => {
            let n: u64 = args.get(2).and_then(|s| s.parse().ok()).unwrap_or(2000);
            let mut bad = 0;
            let mut tot = 0usize;
            let t0 = std::time::Instant::now();
            for i in 0..n {
                let mut r = prng::Rng::new(prng::run_seed(verif_seed, "gentest", i));
                let mut p = gen::GenParams::draw(&mut r, 60);
                if i % 5 == 0 {
                    p.plant_errors = 1 + (i % 3) as u32;
                }
                let g = gen::generate(&p);
                tot += g.bytes.len();
                let v = validator::validate(&g.bytes, false);
                if v.is_ok() != g.recipe.expect_valid {
                    bad += 1;
                    if bad <= 8 {
                        println!("BAD i={} expect_valid={} got {:?}\n  params {:?}", i, g.recipe.expect_valid, v, p);
                    }
                }
            }
            println!("gentest: {} modules, {} bytes avg, {} mismatching expectation, {:?}", n, tot / n.max(1) as usize, bad, t0.elapsed());
            std::process::exit(if bad == 0 { 0 } else { 2 });
        }
        _ => usage(),
    }
}
