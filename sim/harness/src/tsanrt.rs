//! ThreadSanitizer-ABI entry points for the ATOMIC operations of the instrumented parallel build
//! (see sim/rustc-wrap.sh).  The tsan runtime is not linked: these definitions ARE the runtime.  Each one is
//! "a scheduling point of the simulator, then the operation itself" (performed SeqCst: at least as strong as what
//! the code asked for; inside the simulator one task runs at a time, so the ordering argument is irrelevant
//! there, and on the real pool of the native build these symbols do not exist because nothing is instrumented).
#![allow(clippy::missing_safety_doc)]
use std::sync::atomic::*;

#[inline]
fn point() {
    crate::simrt::atomic_point();
}

#[no_mangle]
pub unsafe extern "C" fn __tsan_atomic8_load(p: *const u8, _mo: i32) -> u8 {
    point();
    (*(p as *const AtomicU8)).load(Ordering::SeqCst)
}
#[no_mangle]
pub unsafe extern "C" fn __tsan_atomic8_store(p: *mut u8, v: u8, _mo: i32) {
    point();
    (*(p as *const AtomicU8)).store(v, Ordering::SeqCst)
}
#[no_mangle]
pub unsafe extern "C" fn __tsan_atomic8_exchange(p: *mut u8, v: u8, _mo: i32) -> u8 {
    point();
    (*(p as *const AtomicU8)).swap(v, Ordering::SeqCst)
}
#[no_mangle]
pub unsafe extern "C" fn __tsan_atomic8_fetch_add(p: *mut u8, v: u8, _mo: i32) -> u8 {
    point();
    (*(p as *const AtomicU8)).fetch_add(v, Ordering::SeqCst)
}
#[no_mangle]
pub unsafe extern "C" fn __tsan_atomic8_fetch_sub(p: *mut u8, v: u8, _mo: i32) -> u8 {
    point();
    (*(p as *const AtomicU8)).fetch_sub(v, Ordering::SeqCst)
}
#[no_mangle]
pub unsafe extern "C" fn __tsan_atomic8_fetch_and(p: *mut u8, v: u8, _mo: i32) -> u8 {
    point();
    (*(p as *const AtomicU8)).fetch_and(v, Ordering::SeqCst)
}
#[no_mangle]
pub unsafe extern "C" fn __tsan_atomic8_fetch_or(p: *mut u8, v: u8, _mo: i32) -> u8 {
    point();
    (*(p as *const AtomicU8)).fetch_or(v, Ordering::SeqCst)
}
#[no_mangle]
pub unsafe extern "C" fn __tsan_atomic8_fetch_xor(p: *mut u8, v: u8, _mo: i32) -> u8 {
    point();
    (*(p as *const AtomicU8)).fetch_xor(v, Ordering::SeqCst)
}
#[no_mangle]
pub unsafe extern "C" fn __tsan_atomic8_fetch_nand(p: *mut u8, v: u8, _mo: i32) -> u8 {
    point();
    (*(p as *const AtomicU8)).fetch_nand(v, Ordering::SeqCst)
}
#[no_mangle]
pub unsafe extern "C" fn __tsan_atomic8_compare_exchange_val(p: *mut u8, c: u8, v: u8, _mo: i32, _fmo: i32) -> u8 {
    point();
    match (*(p as *const AtomicU8)).compare_exchange(c, v, Ordering::SeqCst, Ordering::SeqCst) {
        Ok(old) => old,
        Err(old) => old,
    }
}
#[no_mangle]
pub unsafe extern "C" fn __tsan_atomic8_compare_exchange_strong(p: *mut u8, c: *mut u8, v: u8, _mo: i32, _fmo: i32) -> i32 {
    point();
    match (*(p as *const AtomicU8)).compare_exchange(*c, v, Ordering::SeqCst, Ordering::SeqCst) {
        Ok(_) => 1,
        Err(old) => {
            *c = old;
            0
        }
    }
}
#[no_mangle]
pub unsafe extern "C" fn __tsan_atomic8_compare_exchange_weak(p: *mut u8, c: *mut u8, v: u8, mo: i32, fmo: i32) -> i32 {
    __tsan_atomic8_compare_exchange_strong(p, c, v, mo, fmo)
}

#[no_mangle]
pub unsafe extern "C" fn __tsan_atomic16_load(p: *const u16, _mo: i32) -> u16 {
    point();
    (*(p as *const AtomicU16)).load(Ordering::SeqCst)
}
#[no_mangle]
pub unsafe extern "C" fn __tsan_atomic16_store(p: *mut u16, v: u16, _mo: i32) {
    point();
    (*(p as *const AtomicU16)).store(v, Ordering::SeqCst)
}
#[no_mangle]
pub unsafe extern "C" fn __tsan_atomic16_exchange(p: *mut u16, v: u16, _mo: i32) -> u16 {
    point();
    (*(p as *const AtomicU16)).swap(v, Ordering::SeqCst)
}
#[no_mangle]
pub unsafe extern "C" fn __tsan_atomic16_fetch_add(p: *mut u16, v: u16, _mo: i32) -> u16 {
    point();
    (*(p as *const AtomicU16)).fetch_add(v, Ordering::SeqCst)
}
#[no_mangle]
pub unsafe extern "C" fn __tsan_atomic16_fetch_sub(p: *mut u16, v: u16, _mo: i32) -> u16 {
    point();
    (*(p as *const AtomicU16)).fetch_sub(v, Ordering::SeqCst)
}
#[no_mangle]
pub unsafe extern "C" fn __tsan_atomic16_fetch_and(p: *mut u16, v: u16, _mo: i32) -> u16 {
    point();
    (*(p as *const AtomicU16)).fetch_and(v, Ordering::SeqCst)
}
#[no_mangle]
pub unsafe extern "C" fn __tsan_atomic16_fetch_or(p: *mut u16, v: u16, _mo: i32) -> u16 {
    point();
    (*(p as *const AtomicU16)).fetch_or(v, Ordering::SeqCst)
}
#[no_mangle]
pub unsafe extern "C" fn __tsan_atomic16_fetch_xor(p: *mut u16, v: u16, _mo: i32) -> u16 {
    point();
    (*(p as *const AtomicU16)).fetch_xor(v, Ordering::SeqCst)
}
#[no_mangle]
pub unsafe extern "C" fn __tsan_atomic16_fetch_nand(p: *mut u16, v: u16, _mo: i32) -> u16 {
    point();
    (*(p as *const AtomicU16)).fetch_nand(v, Ordering::SeqCst)
}
#[no_mangle]
pub unsafe extern "C" fn __tsan_atomic16_compare_exchange_val(p: *mut u16, c: u16, v: u16, _mo: i32, _fmo: i32) -> u16 {
    point();
    match (*(p as *const AtomicU16)).compare_exchange(c, v, Ordering::SeqCst, Ordering::SeqCst) {
        Ok(old) => old,
        Err(old) => old,
    }
}
#[no_mangle]
pub unsafe extern "C" fn __tsan_atomic16_compare_exchange_strong(p: *mut u16, c: *mut u16, v: u16, _mo: i32, _fmo: i32) -> i32 {
    point();
    match (*(p as *const AtomicU16)).compare_exchange(*c, v, Ordering::SeqCst, Ordering::SeqCst) {
        Ok(_) => 1,
        Err(old) => {
            *c = old;
            0
        }
    }
}
#[no_mangle]
pub unsafe extern "C" fn __tsan_atomic16_compare_exchange_weak(p: *mut u16, c: *mut u16, v: u16, mo: i32, fmo: i32) -> i32 {
    __tsan_atomic16_compare_exchange_strong(p, c, v, mo, fmo)
}

#[no_mangle]
pub unsafe extern "C" fn __tsan_atomic32_load(p: *const u32, _mo: i32) -> u32 {
    point();
    (*(p as *const AtomicU32)).load(Ordering::SeqCst)
}
#[no_mangle]
pub unsafe extern "C" fn __tsan_atomic32_store(p: *mut u32, v: u32, _mo: i32) {
    point();
    (*(p as *const AtomicU32)).store(v, Ordering::SeqCst)
}
#[no_mangle]
pub unsafe extern "C" fn __tsan_atomic32_exchange(p: *mut u32, v: u32, _mo: i32) -> u32 {
    point();
    (*(p as *const AtomicU32)).swap(v, Ordering::SeqCst)
}
#[no_mangle]
pub unsafe extern "C" fn __tsan_atomic32_fetch_add(p: *mut u32, v: u32, _mo: i32) -> u32 {
    point();
    (*(p as *const AtomicU32)).fetch_add(v, Ordering::SeqCst)
}
#[no_mangle]
pub unsafe extern "C" fn __tsan_atomic32_fetch_sub(p: *mut u32, v: u32, _mo: i32) -> u32 {
    point();
    (*(p as *const AtomicU32)).fetch_sub(v, Ordering::SeqCst)
}
#[no_mangle]
pub unsafe extern "C" fn __tsan_atomic32_fetch_and(p: *mut u32, v: u32, _mo: i32) -> u32 {
    point();
    (*(p as *const AtomicU32)).fetch_and(v, Ordering::SeqCst)
}
#[no_mangle]
pub unsafe extern "C" fn __tsan_atomic32_fetch_or(p: *mut u32, v: u32, _mo: i32) -> u32 {
    point();
    (*(p as *const AtomicU32)).fetch_or(v, Ordering::SeqCst)
}
#[no_mangle]
pub unsafe extern "C" fn __tsan_atomic32_fetch_xor(p: *mut u32, v: u32, _mo: i32) -> u32 {
    point();
    (*(p as *const AtomicU32)).fetch_xor(v, Ordering::SeqCst)
}
#[no_mangle]
pub unsafe extern "C" fn __tsan_atomic32_fetch_nand(p: *mut u32, v: u32, _mo: i32) -> u32 {
    point();
    (*(p as *const AtomicU32)).fetch_nand(v, Ordering::SeqCst)
}
#[no_mangle]
pub unsafe extern "C" fn __tsan_atomic32_compare_exchange_val(p: *mut u32, c: u32, v: u32, _mo: i32, _fmo: i32) -> u32 {
    point();
    match (*(p as *const AtomicU32)).compare_exchange(c, v, Ordering::SeqCst, Ordering::SeqCst) {
        Ok(old) => old,
        Err(old) => old,
    }
}
#[no_mangle]
pub unsafe extern "C" fn __tsan_atomic32_compare_exchange_strong(p: *mut u32, c: *mut u32, v: u32, _mo: i32, _fmo: i32) -> i32 {
    point();
    match (*(p as *const AtomicU32)).compare_exchange(*c, v, Ordering::SeqCst, Ordering::SeqCst) {
        Ok(_) => 1,
        Err(old) => {
            *c = old;
            0
        }
    }
}
#[no_mangle]
pub unsafe extern "C" fn __tsan_atomic32_compare_exchange_weak(p: *mut u32, c: *mut u32, v: u32, mo: i32, fmo: i32) -> i32 {
    __tsan_atomic32_compare_exchange_strong(p, c, v, mo, fmo)
}

#[no_mangle]
pub unsafe extern "C" fn __tsan_atomic64_load(p: *const u64, _mo: i32) -> u64 {
    point();
    (*(p as *const AtomicU64)).load(Ordering::SeqCst)
}
#[no_mangle]
pub unsafe extern "C" fn __tsan_atomic64_store(p: *mut u64, v: u64, _mo: i32) {
    point();
    (*(p as *const AtomicU64)).store(v, Ordering::SeqCst)
}
#[no_mangle]
pub unsafe extern "C" fn __tsan_atomic64_exchange(p: *mut u64, v: u64, _mo: i32) -> u64 {
    point();
    (*(p as *const AtomicU64)).swap(v, Ordering::SeqCst)
}
#[no_mangle]
pub unsafe extern "C" fn __tsan_atomic64_fetch_add(p: *mut u64, v: u64, _mo: i32) -> u64 {
    point();
    (*(p as *const AtomicU64)).fetch_add(v, Ordering::SeqCst)
}
#[no_mangle]
pub unsafe extern "C" fn __tsan_atomic64_fetch_sub(p: *mut u64, v: u64, _mo: i32) -> u64 {
    point();
    (*(p as *const AtomicU64)).fetch_sub(v, Ordering::SeqCst)
}
#[no_mangle]
pub unsafe extern "C" fn __tsan_atomic64_fetch_and(p: *mut u64, v: u64, _mo: i32) -> u64 {
    point();
    (*(p as *const AtomicU64)).fetch_and(v, Ordering::SeqCst)
}
#[no_mangle]
pub unsafe extern "C" fn __tsan_atomic64_fetch_or(p: *mut u64, v: u64, _mo: i32) -> u64 {
    point();
    (*(p as *const AtomicU64)).fetch_or(v, Ordering::SeqCst)
}
#[no_mangle]
pub unsafe extern "C" fn __tsan_atomic64_fetch_xor(p: *mut u64, v: u64, _mo: i32) -> u64 {
    point();
    (*(p as *const AtomicU64)).fetch_xor(v, Ordering::SeqCst)
}
#[no_mangle]
pub unsafe extern "C" fn __tsan_atomic64_fetch_nand(p: *mut u64, v: u64, _mo: i32) -> u64 {
    point();
    (*(p as *const AtomicU64)).fetch_nand(v, Ordering::SeqCst)
}
#[no_mangle]
pub unsafe extern "C" fn __tsan_atomic64_compare_exchange_val(p: *mut u64, c: u64, v: u64, _mo: i32, _fmo: i32) -> u64 {
    point();
    match (*(p as *const AtomicU64)).compare_exchange(c, v, Ordering::SeqCst, Ordering::SeqCst) {
        Ok(old) => old,
        Err(old) => old,
    }
}
#[no_mangle]
pub unsafe extern "C" fn __tsan_atomic64_compare_exchange_strong(p: *mut u64, c: *mut u64, v: u64, _mo: i32, _fmo: i32) -> i32 {
    point();
    match (*(p as *const AtomicU64)).compare_exchange(*c, v, Ordering::SeqCst, Ordering::SeqCst) {
        Ok(_) => 1,
        Err(old) => {
            *c = old;
            0
        }
    }
}
#[no_mangle]
pub unsafe extern "C" fn __tsan_atomic64_compare_exchange_weak(p: *mut u64, c: *mut u64, v: u64, mo: i32, fmo: i32) -> i32 {
    __tsan_atomic64_compare_exchange_strong(p, c, v, mo, fmo)
}

#[no_mangle]
pub extern "C" fn __tsan_atomic_thread_fence(_mo: i32) {
    point();
    fence(Ordering::SeqCst)
}
#[no_mangle]
pub extern "C" fn __tsan_atomic_signal_fence(_mo: i32) {
    compiler_fence(Ordering::SeqCst)
}
#[no_mangle]
pub extern "C" fn __tsan_init() {}
// the rest of the ABI is switched off in the wrapper (-tsan-instrument-memory-accesses=0 etc.); defined as
// no-ops so that a toolchain that ignores one of those switches still links and behaves
#[no_mangle]
pub extern "C" fn __tsan_func_entry(_pc: *const u8) {}
#[no_mangle]
pub extern "C" fn __tsan_func_exit() {}
#[no_mangle]
pub extern "C" fn __tsan_ignore_thread_begin() {}
#[no_mangle]
pub extern "C" fn __tsan_ignore_thread_end() {}
#[no_mangle]
pub extern "C" fn __tsan_vptr_update(_a: *const u8, _b: *const u8) {}
#[no_mangle]
pub extern "C" fn __tsan_vptr_read(_a: *const u8) {}
#[no_mangle]
pub extern "C" fn __tsan_read_range(_a: *const u8, _n: usize) {}
#[no_mangle]
pub extern "C" fn __tsan_write_range(_a: *const u8, _n: usize) {}
#[no_mangle]
pub extern "C" fn __tsan_read1(_a: *const u8) {}
#[no_mangle]
pub extern "C" fn __tsan_read2(_a: *const u8) {}
#[no_mangle]
pub extern "C" fn __tsan_read4(_a: *const u8) {}
#[no_mangle]
pub extern "C" fn __tsan_read8(_a: *const u8) {}
#[no_mangle]
pub extern "C" fn __tsan_read16(_a: *const u8) {}
#[no_mangle]
pub extern "C" fn __tsan_write1(_a: *const u8) {}
#[no_mangle]
pub extern "C" fn __tsan_write2(_a: *const u8) {}
#[no_mangle]
pub extern "C" fn __tsan_write4(_a: *const u8) {}
#[no_mangle]
pub extern "C" fn __tsan_write8(_a: *const u8) {}
#[no_mangle]
pub extern "C" fn __tsan_write16(_a: *const u8) {}
#[no_mangle]
pub extern "C" fn __tsan_unaligned_read1(_a: *const u8) {}
#[no_mangle]
pub extern "C" fn __tsan_unaligned_read2(_a: *const u8) {}
#[no_mangle]
pub extern "C" fn __tsan_unaligned_read4(_a: *const u8) {}
#[no_mangle]
pub extern "C" fn __tsan_unaligned_read8(_a: *const u8) {}
#[no_mangle]
pub extern "C" fn __tsan_unaligned_read16(_a: *const u8) {}
#[no_mangle]
pub extern "C" fn __tsan_unaligned_write1(_a: *const u8) {}
#[no_mangle]
pub extern "C" fn __tsan_unaligned_write2(_a: *const u8) {}
#[no_mangle]
pub extern "C" fn __tsan_unaligned_write4(_a: *const u8) {}
#[no_mangle]
pub extern "C" fn __tsan_unaligned_write8(_a: *const u8) {}
#[no_mangle]
pub extern "C" fn __tsan_unaligned_write16(_a: *const u8) {}
#[no_mangle]
pub unsafe extern "C" fn __tsan_memcpy(d: *mut u8, s: *const u8, n: usize) -> *mut u8 {
    std::ptr::copy_nonoverlapping(s, d, n);
    d
}
#[no_mangle]
pub unsafe extern "C" fn __tsan_memmove(d: *mut u8, s: *const u8, n: usize) -> *mut u8 {
    std::ptr::copy(s, d, n);
    d
}
#[no_mangle]
pub unsafe extern "C" fn __tsan_memset(d: *mut u8, c: i32, n: usize) -> *mut u8 {
    std::ptr::write_bytes(d, c as u8, n);
    d
}
