//! The operator zoo: every plain (non-control, non-index) operator of walrus's
//! supported feature set with its stack signature, so that the generator draws
//! from ALL of them and a mis-mapped operator on re-emit has a chance to break
//! validity (C02) or the verdict (C05).  Generated from tables; names are
//! wasm-encoder 0.214 `Instruction` variants.
use wasm_encoder::{Instruction as I, MemArg, ValType as VT};

#[derive(Clone, Copy, Debug, PartialEq, Eq)]
pub enum Feat { Mvp, Simd, Relaxed, Threads }

#[derive(Clone)]
pub enum Op {
    /// pops `args` (left to right), pushes `ret`
    Plain { ins: I<'static>, args: &'static [VT], ret: Option<VT>, feat: Feat },
    /// memory access: address first, then `args`; `mk` builds the instruction from a memarg
    Mem { mk: fn(MemArg) -> I<'static>, args: &'static [VT], ret: Option<VT>, natural: u32, atomic: bool, feat: Feat },
    /// lane immediates: `mk(lane)`, `lanes` = number of lanes
    Lane { mk: fn(u8) -> I<'static>, lanes: u8, args: &'static [VT], ret: Option<VT> },
    /// memory access with a lane immediate: (addr, v128) [-> v128]
    MemLane { mk: fn(MemArg, u8) -> I<'static>, lanes: u8, natural: u32, store: bool },
}

const I32: VT = VT::I32; const I64: VT = VT::I64; const F32: VT = VT::F32; const F64: VT = VT::F64; const V: VT = VT::V128;

pub fn all() -> Vec<Op> {
    let mut v: Vec<Op> = Vec::new();
    macro_rules! plain { ($feat:expr, $args:expr, $ret:expr, [$($n:ident),* $(,)?]) => { $( v.push(Op::Plain { ins: I::$n, args: $args, ret: $ret, feat: $feat }); )* } }
    macro_rules! mem { ($feat:expr, $atomic:expr, $args:expr, $ret:expr, [$(($n:ident, $nat:expr)),* $(,)?]) => { $( v.push(Op::Mem { mk: |m| I::$n(m), args: $args, ret: $ret, natural: $nat, atomic: $atomic, feat: $feat }); )* } }
    macro_rules! lane { ($lanes:expr, $args:expr, $ret:expr, [$($n:ident),* $(,)?]) => { $( v.push(Op::Lane { mk: |l| I::$n(l), lanes: $lanes, args: $args, ret: $ret }); )* } }
    macro_rules! memlane { ($lanes:expr, $nat:expr, $store:expr, [$($n:ident),* $(,)?]) => { $( v.push(Op::MemLane { mk: |m, l| I::$n { memarg: m, lane: l }, lanes: $lanes, natural: $nat, store: $store }); )* } }

    plain!(Feat::Mvp, &[I32], Some(I32), [I32Eqz, I32Clz, I32Ctz, I32Popcnt, I32Extend8S, I32Extend16S]);
    plain!(Feat::Mvp, &[I32, I32], Some(I32), [I32Eq, I32Ne, I32LtS, I32LtU, I32GtS, I32GtU, I32LeS, I32LeU, I32GeS, I32GeU, I32Add, I32Sub, I32Mul, I32DivS, I32DivU, I32RemS, I32RemU, I32And, I32Or, I32Xor, I32Shl, I32ShrS, I32ShrU, I32Rotl, I32Rotr]);
    plain!(Feat::Mvp, &[I64], Some(I32), [I64Eqz, I32WrapI64]);
    plain!(Feat::Mvp, &[I64, I64], Some(I32), [I64Eq, I64Ne, I64LtS, I64LtU, I64GtS, I64GtU, I64LeS, I64LeU, I64GeS, I64GeU]);
    plain!(Feat::Mvp, &[F32, F32], Some(I32), [F32Eq, F32Ne, F32Lt, F32Gt, F32Le, F32Ge]);
    plain!(Feat::Mvp, &[F64, F64], Some(I32), [F64Eq, F64Ne, F64Lt, F64Gt, F64Le, F64Ge]);
    plain!(Feat::Mvp, &[I64], Some(I64), [I64Clz, I64Ctz, I64Popcnt, I64Extend8S, I64Extend16S, I64Extend32S]);
    plain!(Feat::Mvp, &[I64, I64], Some(I64), [I64Add, I64Sub, I64Mul, I64DivS, I64DivU, I64RemS, I64RemU, I64And, I64Or, I64Xor, I64Shl, I64ShrS, I64ShrU, I64Rotl, I64Rotr]);
    plain!(Feat::Mvp, &[F32], Some(F32), [F32Abs, F32Neg, F32Ceil, F32Floor, F32Trunc, F32Nearest, F32Sqrt]);
    plain!(Feat::Mvp, &[F32, F32], Some(F32), [F32Add, F32Sub, F32Mul, F32Div, F32Min, F32Max, F32Copysign]);
    plain!(Feat::Mvp, &[F64], Some(F64), [F64Abs, F64Neg, F64Ceil, F64Floor, F64Trunc, F64Nearest, F64Sqrt]);
    plain!(Feat::Mvp, &[F64, F64], Some(F64), [F64Add, F64Sub, F64Mul, F64Div, F64Min, F64Max, F64Copysign]);
    plain!(Feat::Mvp, &[F32], Some(I32), [I32TruncF32S, I32TruncF32U, I32ReinterpretF32, I32TruncSatF32S, I32TruncSatF32U]);
    plain!(Feat::Mvp, &[F64], Some(I32), [I32TruncF64S, I32TruncF64U, I32TruncSatF64S, I32TruncSatF64U]);
    plain!(Feat::Mvp, &[I32], Some(I64), [I64ExtendI32S, I64ExtendI32U]);
    plain!(Feat::Mvp, &[F32], Some(I64), [I64TruncF32S, I64TruncF32U, I64TruncSatF32S, I64TruncSatF32U]);
    plain!(Feat::Mvp, &[F64], Some(I64), [I64TruncF64S, I64TruncF64U, I64ReinterpretF64, I64TruncSatF64S, I64TruncSatF64U]);
    plain!(Feat::Mvp, &[I32], Some(F32), [F32ConvertI32S, F32ConvertI32U, F32ReinterpretI32]);
    plain!(Feat::Mvp, &[I64], Some(F32), [F32ConvertI64S, F32ConvertI64U]);
    plain!(Feat::Mvp, &[F64], Some(F32), [F32DemoteF64]);
    plain!(Feat::Mvp, &[I32], Some(F64), [F64ConvertI32S, F64ConvertI32U]);
    plain!(Feat::Mvp, &[I64], Some(F64), [F64ConvertI64S, F64ConvertI64U, F64ReinterpretI64]);
    plain!(Feat::Mvp, &[F32], Some(F64), [F64PromoteF32]);
    mem!(Feat::Mvp, false, &[], Some(I32), [(I32Load, 2), (I32Load8S, 0), (I32Load8U, 0), (I32Load16S, 1), (I32Load16U, 1)]);
    mem!(Feat::Mvp, false, &[], Some(I64), [(I64Load, 3), (I64Load8S, 0), (I64Load8U, 0), (I64Load16S, 1), (I64Load16U, 1), (I64Load32S, 2), (I64Load32U, 2)]);
    mem!(Feat::Mvp, false, &[], Some(F32), [(F32Load, 2)]);
    mem!(Feat::Mvp, false, &[], Some(F64), [(F64Load, 3)]);
    mem!(Feat::Mvp, false, &[I32], None, [(I32Store, 2), (I32Store8, 0), (I32Store16, 1)]);
    mem!(Feat::Mvp, false, &[I64], None, [(I64Store, 3), (I64Store8, 0), (I64Store16, 1), (I64Store32, 2)]);
    mem!(Feat::Mvp, false, &[F32], None, [(F32Store, 2)]);
    mem!(Feat::Mvp, false, &[F64], None, [(F64Store, 3)]);
    mem!(Feat::Simd, false, &[], Some(V), [(V128Load, 4), (V128Load8x8S, 3), (V128Load8x8U, 3), (V128Load16x4S, 3), (V128Load16x4U, 3), (V128Load32x2S, 3), (V128Load32x2U, 3), (V128Load8Splat, 0), (V128Load16Splat, 1), (V128Load32Splat, 2), (V128Load64Splat, 3), (V128Load32Zero, 2), (V128Load64Zero, 3)]);
    mem!(Feat::Simd, false, &[V], None, [(V128Store, 4)]);
    mem!(Feat::Threads, true, &[], Some(I32), [(I32AtomicLoad, 2), (I32AtomicLoad8U, 0), (I32AtomicLoad16U, 1)]);
    mem!(Feat::Threads, true, &[], Some(I64), [(I64AtomicLoad, 3), (I64AtomicLoad8U, 0), (I64AtomicLoad16U, 1), (I64AtomicLoad32U, 2)]);
    mem!(Feat::Threads, true, &[I32], None, [(I32AtomicStore, 2), (I32AtomicStore8, 0), (I32AtomicStore16, 1)]);
    mem!(Feat::Threads, true, &[I64], None, [(I64AtomicStore, 3), (I64AtomicStore8, 0), (I64AtomicStore16, 1), (I64AtomicStore32, 2)]);
    mem!(Feat::Threads, true, &[I32], Some(I32), [(I32AtomicRmwAdd, 2), (I32AtomicRmw8AddU, 0), (I32AtomicRmw16AddU, 1)]);
    mem!(Feat::Threads, true, &[I64], Some(I64), [(I64AtomicRmwAdd, 3), (I64AtomicRmw8AddU, 0), (I64AtomicRmw16AddU, 1), (I64AtomicRmw32AddU, 2)]);
    mem!(Feat::Threads, true, &[I32], Some(I32), [(I32AtomicRmwSub, 2), (I32AtomicRmw8SubU, 0), (I32AtomicRmw16SubU, 1)]);
    mem!(Feat::Threads, true, &[I64], Some(I64), [(I64AtomicRmwSub, 3), (I64AtomicRmw8SubU, 0), (I64AtomicRmw16SubU, 1), (I64AtomicRmw32SubU, 2)]);
    mem!(Feat::Threads, true, &[I32], Some(I32), [(I32AtomicRmwAnd, 2), (I32AtomicRmw8AndU, 0), (I32AtomicRmw16AndU, 1)]);
    mem!(Feat::Threads, true, &[I64], Some(I64), [(I64AtomicRmwAnd, 3), (I64AtomicRmw8AndU, 0), (I64AtomicRmw16AndU, 1), (I64AtomicRmw32AndU, 2)]);
    mem!(Feat::Threads, true, &[I32], Some(I32), [(I32AtomicRmwOr, 2), (I32AtomicRmw8OrU, 0), (I32AtomicRmw16OrU, 1)]);
    mem!(Feat::Threads, true, &[I64], Some(I64), [(I64AtomicRmwOr, 3), (I64AtomicRmw8OrU, 0), (I64AtomicRmw16OrU, 1), (I64AtomicRmw32OrU, 2)]);
    mem!(Feat::Threads, true, &[I32], Some(I32), [(I32AtomicRmwXor, 2), (I32AtomicRmw8XorU, 0), (I32AtomicRmw16XorU, 1)]);
    mem!(Feat::Threads, true, &[I64], Some(I64), [(I64AtomicRmwXor, 3), (I64AtomicRmw8XorU, 0), (I64AtomicRmw16XorU, 1), (I64AtomicRmw32XorU, 2)]);
    mem!(Feat::Threads, true, &[I32], Some(I32), [(I32AtomicRmwXchg, 2), (I32AtomicRmw8XchgU, 0), (I32AtomicRmw16XchgU, 1)]);
    mem!(Feat::Threads, true, &[I64], Some(I64), [(I64AtomicRmwXchg, 3), (I64AtomicRmw8XchgU, 0), (I64AtomicRmw16XchgU, 1), (I64AtomicRmw32XchgU, 2)]);
    mem!(Feat::Threads, true, &[I32, I32], Some(I32), [(I32AtomicRmwCmpxchg, 2), (I32AtomicRmw8CmpxchgU, 0), (I32AtomicRmw16CmpxchgU, 1)]);
    mem!(Feat::Threads, true, &[I64, I64], Some(I64), [(I64AtomicRmwCmpxchg, 3), (I64AtomicRmw8CmpxchgU, 0), (I64AtomicRmw16CmpxchgU, 1), (I64AtomicRmw32CmpxchgU, 2)]);
    mem!(Feat::Threads, true, &[I32], Some(I32), [(MemoryAtomicNotify, 2)]);
    mem!(Feat::Threads, true, &[I32, I64], Some(I32), [(MemoryAtomicWait32, 2)]);
    mem!(Feat::Threads, true, &[I64, I64], Some(I32), [(MemoryAtomicWait64, 3)]);
    plain!(Feat::Simd, &[V], Some(V), [V128Not, I8x16Abs, I8x16Neg, I8x16Popcnt, I16x8ExtAddPairwiseI8x16S, I16x8ExtAddPairwiseI8x16U, I16x8Abs, I16x8Neg, I16x8ExtendLowI8x16S, I16x8ExtendHighI8x16S, I16x8ExtendLowI8x16U, I16x8ExtendHighI8x16U, I32x4ExtAddPairwiseI16x8S, I32x4ExtAddPairwiseI16x8U, I32x4Abs, I32x4Neg, I32x4ExtendLowI16x8S, I32x4ExtendHighI16x8S, I32x4ExtendLowI16x8U, I32x4ExtendHighI16x8U, I64x2Abs, I64x2Neg, I64x2ExtendLowI32x4S, I64x2ExtendHighI32x4S, I64x2ExtendLowI32x4U, I64x2ExtendHighI32x4U, F32x4Ceil, F32x4Floor, F32x4Trunc, F32x4Nearest, F32x4Abs, F32x4Neg, F32x4Sqrt, F64x2Ceil, F64x2Floor, F64x2Trunc, F64x2Nearest, F64x2Abs, F64x2Neg, F64x2Sqrt, I32x4TruncSatF32x4S, I32x4TruncSatF32x4U, F32x4ConvertI32x4S, F32x4ConvertI32x4U, I32x4TruncSatF64x2SZero, I32x4TruncSatF64x2UZero, F64x2ConvertLowI32x4S, F64x2ConvertLowI32x4U, F32x4DemoteF64x2Zero, F64x2PromoteLowF32x4]);
    plain!(Feat::Simd, &[V, V], Some(V), [V128And, V128AndNot, V128Or, V128Xor, I8x16Swizzle, I8x16Eq, I8x16Ne, I8x16LtS, I8x16LtU, I8x16GtS, I8x16GtU, I8x16LeS, I8x16LeU, I8x16GeS, I8x16GeU, I16x8Eq, I16x8Ne, I16x8LtS, I16x8LtU, I16x8GtS, I16x8GtU, I16x8LeS, I16x8LeU, I16x8GeS, I16x8GeU, I32x4Eq, I32x4Ne, I32x4LtS, I32x4LtU, I32x4GtS, I32x4GtU, I32x4LeS, I32x4LeU, I32x4GeS, I32x4GeU, I64x2Eq, I64x2Ne, I64x2LtS, I64x2GtS, I64x2LeS, I64x2GeS, F32x4Eq, F32x4Ne, F32x4Lt, F32x4Gt, F32x4Le, F32x4Ge, F32x4Add, F32x4Sub, F32x4Mul, F32x4Div, F32x4Min, F32x4Max, F32x4PMin, F32x4PMax, F64x2Eq, F64x2Ne, F64x2Lt, F64x2Gt, F64x2Le, F64x2Ge, F64x2Add, F64x2Sub, F64x2Mul, F64x2Div, F64x2Min, F64x2Max, F64x2PMin, F64x2PMax, I8x16NarrowI16x8S, I8x16NarrowI16x8U, I16x8NarrowI32x4S, I16x8NarrowI32x4U, I8x16Add, I8x16AddSatS, I8x16AddSatU, I8x16Sub, I8x16SubSatS, I8x16SubSatU, I8x16MinS, I8x16MinU, I8x16MaxS, I8x16MaxU, I8x16AvgrU, I16x8Add, I16x8AddSatS, I16x8AddSatU, I16x8Sub, I16x8SubSatS, I16x8SubSatU, I16x8Mul, I16x8MinS, I16x8MinU, I16x8MaxS, I16x8MaxU, I16x8AvgrU, I16x8Q15MulrSatS, I16x8ExtMulLowI8x16S, I16x8ExtMulHighI8x16S, I16x8ExtMulLowI8x16U, I16x8ExtMulHighI8x16U, I32x4Add, I32x4Sub, I32x4Mul, I32x4MinS, I32x4MinU, I32x4MaxS, I32x4MaxU, I32x4DotI16x8S, I32x4ExtMulLowI16x8S, I32x4ExtMulHighI16x8S, I32x4ExtMulLowI16x8U, I32x4ExtMulHighI16x8U, I64x2Add, I64x2Sub, I64x2Mul, I64x2ExtMulLowI32x4S, I64x2ExtMulHighI32x4S, I64x2ExtMulLowI32x4U, I64x2ExtMulHighI32x4U]);
    plain!(Feat::Simd, &[V, I32], Some(V), [I8x16Shl, I8x16ShrS, I8x16ShrU, I16x8Shl, I16x8ShrS, I16x8ShrU, I32x4Shl, I32x4ShrS, I32x4ShrU, I64x2Shl, I64x2ShrS, I64x2ShrU]);
    plain!(Feat::Simd, &[V], Some(I32), [V128AnyTrue, I8x16AllTrue, I8x16Bitmask, I16x8AllTrue, I16x8Bitmask, I32x4AllTrue, I32x4Bitmask, I64x2AllTrue, I64x2Bitmask]);
    plain!(Feat::Simd, &[V, V, V], Some(V), [V128Bitselect]);
    plain!(Feat::Simd, &[I32], Some(V), [I8x16Splat, I16x8Splat, I32x4Splat]);
    plain!(Feat::Simd, &[I64], Some(V), [I64x2Splat]);
    plain!(Feat::Simd, &[F32], Some(V), [F32x4Splat]);
    plain!(Feat::Simd, &[F64], Some(V), [F64x2Splat]);
    plain!(Feat::Relaxed, &[V], Some(V), [I32x4RelaxedTruncF32x4S, I32x4RelaxedTruncF32x4U, I32x4RelaxedTruncF64x2SZero, I32x4RelaxedTruncF64x2UZero]);
    plain!(Feat::Relaxed, &[V, V], Some(V), [I8x16RelaxedSwizzle, F32x4RelaxedMin, F32x4RelaxedMax, F64x2RelaxedMin, F64x2RelaxedMax, I16x8RelaxedQ15mulrS, I16x8RelaxedDotI8x16I7x16S]);
    plain!(Feat::Relaxed, &[V, V, V], Some(V), [F32x4RelaxedMadd, F32x4RelaxedNmadd, F64x2RelaxedMadd, F64x2RelaxedNmadd, I8x16RelaxedLaneselect, I16x8RelaxedLaneselect, I32x4RelaxedLaneselect, I64x2RelaxedLaneselect, I32x4RelaxedDotI8x16I7x16AddS]);
    lane!(16, &[V], Some(I32), [I8x16ExtractLaneS, I8x16ExtractLaneU]);
    lane!(8, &[V], Some(I32), [I16x8ExtractLaneS, I16x8ExtractLaneU]);
    lane!(4, &[V], Some(I32), [I32x4ExtractLane]);
    lane!(2, &[V], Some(I64), [I64x2ExtractLane]);
    lane!(4, &[V], Some(F32), [F32x4ExtractLane]);
    lane!(2, &[V], Some(F64), [F64x2ExtractLane]);
    lane!(16, &[V, I32], Some(V), [I8x16ReplaceLane]);
    lane!(8, &[V, I32], Some(V), [I16x8ReplaceLane]);
    lane!(4, &[V, I32], Some(V), [I32x4ReplaceLane]);
    lane!(2, &[V, I64], Some(V), [I64x2ReplaceLane]);
    lane!(4, &[V, F32], Some(V), [F32x4ReplaceLane]);
    lane!(2, &[V, F64], Some(V), [F64x2ReplaceLane]);
    memlane!(16, 0, false, [V128Load8Lane]);
    memlane!(8, 1, false, [V128Load16Lane]);
    memlane!(4, 2, false, [V128Load32Lane]);
    memlane!(2, 3, false, [V128Load64Lane]);
    memlane!(16, 0, true, [V128Store8Lane]);
    memlane!(8, 1, true, [V128Store16Lane]);
    memlane!(4, 2, true, [V128Store32Lane]);
    memlane!(2, 3, true, [V128Store64Lane]);
    v
}
