//! The simulation runtime: the scheduler the harness owns, the scheduling-point
//! seams (log facade, on_instr_loc), the entropy seam (getrandom), and the
//! "one simulated run = one fresh OS thread" executor.

use crate::prng::Rng;
use crate::types::{ScheduleRec, SimKnobs, Strategy};
#[cfg(not(feature = "native"))]
use shuttle::scheduler::{Schedule, Scheduler, Task, TaskId};
use std::cell::{Cell, RefCell};
use std::sync::{Arc, Mutex};

// ---------------------------------------------------------------------------
// per-run state (std thread_local: one run = one OS thread)

#[derive(Clone, Copy, Debug, PartialEq, Eq)]
pub enum Site {
    Log,
    InstrLoc,
    /// a control-flow edge inside the instrumented parallel build
    Edge,
}

#[derive(Clone, Copy, Debug, PartialEq, Eq)]
pub enum Phase {
    Other,
    Parse,
    Emit,
}

#[derive(Clone, Debug, Default)]
pub struct RunStats {
    pub sched_points_parse: u64,
    pub sched_points_emit: u64,
    pub sched_points_other: u64,
    pub sched_points_instr_loc: u64,
    pub sched_points_edge: u64,
    pub sched_points_atomic: u64,
    pub atomic_ops_seen: u64,
    pub futex_waits_as_yield: u64,
    pub futex_timeouts_fired: u64,
    pub spin_relief_yields: u64,
    pub futex_wakes: u64,
    pub futex_spurious_wakeups: u64,
    pub edges_seen: u64,
    pub log_records: u64,
    pub decisions: u64,
    pub context_switches: u64,
    pub forced_decisions: u64,
    pub max_runnable: u64,
    pub randoms: u64,
    pub interleaving_hash: u64,
    pub replay_divergences: u64,
}

thread_local! {
    static ACTIVE: Cell<bool> = const { Cell::new(false) };
    static THIN: Cell<u32> = const { Cell::new(0) };
    static COUNTER: Cell<u32> = const { Cell::new(0) };
    static EDGE_THIN: Cell<u32> = const { Cell::new(0) };
    static ATOMIC_THIN: Cell<u32> = const { Cell::new(0) };
    static ATOMIC_COUNTER: Cell<u64> = const { Cell::new(0) };
    static FUTEX_YIELDS: Cell<u64> = const { Cell::new(0) };
    /// (1/k chance of an injected spurious futex wake-up per yield of a waiter; 0 = never, salt)
    static SPURIOUS: Cell<(u32, u64)> = const { Cell::new((0, 0)) };
    /// control-flow edges executed by the instrumented build in this run (any task): the progress measure
    static PROGRESS: Cell<u64> = const { Cell::new(0) };
    /// (progress value at the last futex yield, consecutive futex yields at that value)
    static FUTEX_STREAK: Cell<(u64, u64)> = const { Cell::new((0, 0)) };
    static EDGE_COUNTER: Cell<u64> = const { Cell::new(0) };
    static EDGE_SWITCHES: Cell<u64> = const { Cell::new(0) };
    static PHASE: Cell<Phase> = const { Cell::new(Phase::Other) };
    static STATS: RefCell<RunStats> = RefCell::new(RunStats::default());
    static ENTROPY: Cell<Option<u64>> = const { Cell::new(None) };
    static QUIET: Cell<bool> = const { Cell::new(false) };
}

pub fn set_phase(p: Phase) -> Phase {
    PHASE.with(|c| c.replace(p))
}

/// A cooperative scheduling point.  No-op outside a simulated run.
pub fn sched_point(site: Site) {
    if !ACTIVE.with(|a| a.get()) {
        return;
    }
    if site == Site::Log {
        STATS.with(|s| s.borrow_mut().log_records += 1);
    }
    let k = THIN.with(|t| t.get());
    if k == 0 {
        return;
    }
    let n = COUNTER.with(|c| {
        let n = c.get().wrapping_add(1);
        c.set(n);
        n
    });
    if n % k != 0 {
        return;
    }
    #[cfg(not(feature = "native"))]
    if !may_switch() {
        return;
    }
    STATS.with(|s| {
        let mut s = s.borrow_mut();
        match site {
            Site::InstrLoc => s.sched_points_instr_loc += 1,
            Site::Edge => s.sched_points_edge += 1,
            Site::Log => match PHASE.with(|p| p.get()) {
                Phase::Parse => s.sched_points_parse += 1,
                Phase::Emit => s.sched_points_emit += 1,
                Phase::Other => s.sched_points_other += 1,
            },
        }
    });
    // sleep, not yield_now: a plain context-switch opportunity without telling
    // the scheduler the task is spinning
    #[cfg(not(feature = "native"))]
    shuttle::thread::sleep(std::time::Duration::ZERO);
    // real pool (native / Miri leg): an OS-level yield; Miri's scheduler may also preempt anywhere
    #[cfg(feature = "native")]
    std::thread::yield_now();
}

/// Is the caller a shuttle task whose engine state is free (so that a context switch is legal here)?
/// Instrumented drop glue also runs from inside the engine's own bookkeeping and during unwinding:
/// no scheduling point there.
#[cfg(not(feature = "native"))]
#[inline]
fn may_switch() -> bool {
    if std::thread::panicking() {
        return false;
    }
    matches!(shuttle_engine::runtime::execution::ExecutionState::try_with(|s| s.try_current().map(|t| t.id())), Ok(Some(_)))
}

/// Called at every control-flow edge of the instrumented parallel build.
#[inline]
pub fn edge_point() {
    if !ACTIVE.with(|a| a.get()) {
        return;
    }
    PROGRESS.with(|p| p.set(p.get().wrapping_add(1)));
    let k = EDGE_THIN.with(|t| t.get());
    if k == 0 {
        return;
    }
    let n = EDGE_COUNTER.with(|c| {
        let n = c.get().wrapping_add(1);
        c.set(n);
        n
    });
    if n % k as u64 != 0 {
        return;
    }
    #[cfg(not(feature = "native"))]
    {
        if !may_switch() {
            return;
        }
        let used = EDGE_SWITCHES.with(|c| {
            let v = c.get() + 1;
            c.set(v);
            v
        });
        if used > EDGE_SWITCH_BUDGET {
            return;
        }
        STATS.with(|s| s.borrow_mut().sched_points_edge += 1);
        shuttle::thread::sleep(std::time::Duration::ZERO);
    }
}

/// Called right before every atomic operation of the instrumented parallel build (tsanrt.rs).
#[inline]
pub fn atomic_point() {
    if !ACTIVE.with(|a| a.get()) {
        return;
    }
    let n = ATOMIC_COUNTER.with(|c| {
        let n = c.get().wrapping_add(1);
        c.set(n);
        n
    });
    let k = ATOMIC_THIN.with(|t| t.get());
    if k == 0 {
        // Spin relief: even when atomic operations are not scheduling points in this run, a task that executes
        // thousands of them in a row (a spin-wait on a flag another task has to set) must not starve the single
        // OS thread of the simulation: every 4096th one YIELDS (all strategies are fair on yield).
        #[cfg(not(feature = "native"))]
        if n % SPIN_RELIEF_EVERY == 0 && may_switch() {
            STATS.with(|s| s.borrow_mut().spin_relief_yields += 1);
            shuttle::thread::yield_now();
        }
        return;
    }
    if n % k as u64 != 0 {
        return;
    }
    #[cfg(not(feature = "native"))]
    {
        if !may_switch() {
            return;
        }
        STATS.with(|s| s.borrow_mut().sched_points_atomic += 1);
        // a long run of atomic operations by one task is a spin-wait: yield (fair) now and then instead of the
        // plain switch opportunity, so that a "stay on the current task" strategy cannot spin for ever
        if n % SPIN_RELIEF_EVERY == 0 {
            shuttle::thread::yield_now();
        } else {
            shuttle::thread::sleep(std::time::Duration::ZERO);
        }
    }
}

/// SanitizerCoverage hooks (see sim/rustc-wrap.sh): only crate walrus_par is instrumented.
#[no_mangle]
pub extern "C" fn __sanitizer_cov_trace_pc_guard_init(_start: *mut u32, _stop: *mut u32) {}

#[no_mangle]
pub extern "C" fn __sanitizer_cov_trace_pc_guard(_guard: *mut u32) {
    edge_point();
}

// ---------------------------------------------------------------------------
// the log facade as a seam

struct SimLogger;

impl log::Log for SimLogger {
    fn enabled(&self, _: &log::Metadata) -> bool {
        ACTIVE.with(|a| a.get())
    }
    fn log(&self, _record: &log::Record) {
        // never formats the record, never reads a clock, never draws randomness
        sched_point(Site::Log);
    }
    fn flush(&self) {}
}

static LOGGER: SimLogger = SimLogger;

/// Panics on run threads are data (the code under test); panics anywhere else
/// are harness bugs and must be visible.
pub fn install_panic_hook() {
    std::panic::set_hook(Box::new(|info| {
        if !QUIET.with(|q| q.get()) {
            eprintln!("HARNESS PANIC: {}", info);
        }
    }));
}

pub fn install_logger() {
    let _ = log::set_logger(&LOGGER);
    log::set_max_level(log::LevelFilter::Off);
}

// ---------------------------------------------------------------------------
// entropy seam: std's RandomState asks libc `getrandom` for its keys, once per
// thread.  This definition takes precedence over libc's at link time.

/// # Safety
/// Same contract as libc's getrandom.  (Under Miri the interpreter owns entropy: seeded by -Zmiri-seed.)
#[cfg(not(miri))]
#[no_mangle]
pub unsafe extern "C" fn getrandom(buf: *mut u8, len: usize, flags: u32) -> isize {
    match ENTROPY.with(|e| e.get()) {
        Some(seed) => {
            let mut sm = crate::prng::SplitMix64(seed);
            let mut i = 0;
            while i < len {
                let v = sm.next().to_le_bytes();
                let k = (len - i).min(8);
                std::ptr::copy_nonoverlapping(v.as_ptr(), buf.add(i), k);
                i += k;
            }
            ENTROPY.with(|e| e.set(Some(sm.0)));
            len as isize
        }
        None => libc::syscall(libc::SYS_getrandom, buf, len, flags) as isize,
    }
}

// ---------------------------------------------------------------------------
// blocking seam: every blocking primitive of std (Mutex, RwLock, Condvar, Once, thread parking) ends in a
// futex WAIT issued through libc's `syscall`.  Inside a simulated task an OS-level wait would park the only OS
// thread the simulation has (the holder of the lock is a suspended task on the same thread).  This definition
// takes precedence over libc's at link time and turns "futex wait" into "yield to the simulated scheduler and
// return": a spurious wake-up, which the futex contract allows and every caller handles by re-checking.
// Everything else, and every call made outside a simulated task, goes to the kernel unchanged.

#[cfg(all(not(miri), not(feature = "native"), target_arch = "x86_64", target_os = "linux"))]
mod sysseam {
    use super::*;
    /// per run: after this many futex waits turned into yields the wait is handed to the kernel after all
    /// (a genuine deadlock of the code under test then shows up as STUCK-IN-SIM instead of spinning for ever)
    pub const FUTEX_YIELD_BUDGET: u64 = 400_000;
    /// consecutive no-progress futex waits after which the run is declared deadlocked (far more than the
    /// scheduler needs to have run every runnable task: a yielding task is never chosen again before the others
    /// under the priority / cyclic strategies, and is chosen with probability <= 1/2 under the random ones)
    pub const DEADLOCK_STREAK: u64 = 20_000;
    pub const TIMED_WAIT_YIELDS: u64 = 64;
    const FUTEX_WAIT: i32 = 0;
    const FUTEX_WAIT_BITSET: i32 = 9;
    const FUTEX_CMD_MASK: i32 = !(128 | 256);

    #[inline]
    unsafe fn raw6(n: libc::c_long, a1: usize, a2: usize, a3: usize, a4: usize, a5: usize, a6: usize) -> isize {
        let ret: isize;
        core::arch::asm!(
            "syscall",
            inlateout("rax") n as isize => ret,
            in("rdi") a1, in("rsi") a2, in("rdx") a3, in("r10") a4, in("r8") a5, in("r9") a6,
            lateout("rcx") _, lateout("r11") _,
            options(nostack)
        );
        ret
    }

    const FUTEX_WAKE: i32 = 1;
    const FUTEX_WAKE_BITSET: i32 = 10;

    thread_local! {
        /// the simulator's futex table: address -> waiting tasks in arrival order, with their "woken" flag
        static WAITERS: RefCell<std::collections::BTreeMap<usize, Vec<(usize, bool)>>> = const { RefCell::new(std::collections::BTreeMap::new()) };
    }

    pub fn reset() {
        WAITERS.with(|w| w.borrow_mut().clear());
    }

    fn current_task() -> Option<usize> {
        shuttle_engine::runtime::execution::ExecutionState::try_with(|s| s.try_current().map(|t| usize::from(t.id()))).ok().flatten()
    }

    fn take_if_woken(addr: usize, me: usize) -> bool {
        WAITERS.with(|w| {
            let mut w = w.borrow_mut();
            let Some(v) = w.get_mut(&addr) else { return true };
            match v.iter().position(|(t, _)| *t == me) {
                Some(i) if v[i].1 => {
                    v.remove(i);
                    if v.is_empty() {
                        w.remove(&addr);
                    }
                    true
                }
                Some(_) => false,
                None => true,
            }
        })
    }

    fn unregister(addr: usize, me: usize) {
        WAITERS.with(|w| {
            let mut w = w.borrow_mut();
            if let Some(v) = w.get_mut(&addr) {
                v.retain(|(t, _)| *t != me);
                if v.is_empty() {
                    w.remove(&addr);
                }
            }
        });
    }

    /// # Safety
    /// Same contract as libc's variadic `syscall` (integer / pointer arguments only, as on x86-64 Linux).
    #[no_mangle]
    pub unsafe extern "C" fn syscall(n: libc::c_long, a1: usize, a2: usize, a3: usize, a4: usize, a5: usize, a6: usize) -> libc::c_long {
        if n == libc::SYS_futex && ACTIVE.with(|a| a.get()) {
            let cmd = (a2 as i32) & FUTEX_CMD_MASK;
            if cmd == FUTEX_WAKE || cmd == FUTEX_WAKE_BITSET {
                // wake up to a3 tasks waiting on this word IN THE SIMULATOR (no simulated task ever waits in the
                // kernel; also reached from drop glue during unwinding, where no switch is taken: none is needed)
                let mut woken = 0usize;
                WAITERS.with(|w| {
                    if let Some(v) = w.borrow_mut().get_mut(&a1) {
                        for e in v.iter_mut() {
                            if woken >= a3 {
                                break;
                            }
                            if !e.1 {
                                e.1 = true;
                                woken += 1;
                            }
                        }
                    }
                });
                STATS.with(|s| s.borrow_mut().futex_wakes += 1);
                return woken as libc::c_long;
            }
            if (cmd == FUTEX_WAIT || cmd == FUTEX_WAIT_BITSET) && may_switch() {
                let word = &*(a1 as *const std::sync::atomic::AtomicU32);
                if word.load(std::sync::atomic::Ordering::SeqCst) != a3 as u32 {
                    *libc::__errno_location() = libc::EAGAIN;
                    return -1;
                }
                let Some(me) = current_task() else { return fallthrough(n, a1, a2, a3, a4, a5, a6) };
                // The wait is modelled faithfully: the task stays parked (it only yields to the simulated
                // scheduler) until a FUTEX_WAKE on this word picks it, so a lost wake-up stays lost.  A spurious
                // wake-up -- which the futex contract allows -- is an injected fault, on in some runs only.
                WAITERS.with(|w| w.borrow_mut().entry(a1).or_default().push((me, false)));
                let timed = a4 != 0;
                let (spurious, salt) = SPURIOUS.with(|c| c.get());
                STATS.with(|s| s.borrow_mut().futex_waits_as_yield += 1);
                let mut my_yields = 0u64;
                loop {
                    let used = FUTEX_YIELDS.with(|c| {
                        let v = c.get() + 1;
                        c.set(v);
                        v
                    });
                    // consecutive futex yields (of any task) during which no task executed a single edge of the
                    // code under test: nobody is making progress
                    let progress = PROGRESS.with(|p| p.get());
                    let (last, streak) = FUTEX_STREAK.with(|c| c.get());
                    let streak = if last == progress { streak + 1 } else { 1 };
                    FUTEX_STREAK.with(|c| c.set((progress, streak)));
                    if timed && my_yields > TIMED_WAIT_YIELDS {
                        // a wait with a deadline: simulated time jumps past it
                        unregister(a1, me);
                        STATS.with(|s| s.borrow_mut().futex_timeouts_fired += 1);
                        *libc::__errno_location() = libc::ETIMEDOUT;
                        return -1;
                    }
                    if (!timed && streak > DEADLOCK_STREAK) || used > FUTEX_YIELD_BUDGET {
                        if streak > DEADLOCK_STREAK {
                            // Every decision of the (fair-on-yield) scheduler over the whole window ran a task
                            // that is parked on a futex nobody has woken, and no task executed any code: no task
                            // can ever move.  The wait is handed to the kernel; run_sim recognises the parked
                            // thread and reports the deadlock with the recorded schedule.
                            DEADLOCKED.store(true, std::sync::atomic::Ordering::SeqCst);
                        }
                        unregister(a1, me);
                        return fallthrough(n, a1, a2, a3, a4, a5, a6);
                    }
                    shuttle::thread::yield_now();
                    my_yields += 1;
                    if take_if_woken(a1, me) {
                        return 0;
                    }
                    if spurious != 0 {
                        let h = (used ^ salt).wrapping_mul(0x9E37_79B9_7F4A_7C15);
                        if (h >> 33) % spurious as u64 == 0 {
                            unregister(a1, me);
                            STATS.with(|s| s.borrow_mut().futex_spurious_wakeups += 1);
                            return 0;
                        }
                    }
                }
            }
        }
        fallthrough(n, a1, a2, a3, a4, a5, a6)
    }

    #[inline]
    unsafe fn fallthrough(n: libc::c_long, a1: usize, a2: usize, a3: usize, a4: usize, a5: usize, a6: usize) -> libc::c_long {
        let r = raw6(n, a1, a2, a3, a4, a5, a6);
        if (-4095..0).contains(&r) {
            *libc::__errno_location() = -r as i32;
            return -1;
        }
        r as libc::c_long
    }
}

#[cfg(all(not(miri), not(feature = "native"), target_arch = "x86_64", target_os = "linux"))]
fn sysseam_deadlock_streak() -> u64 {
    sysseam::DEADLOCK_STREAK
}
#[cfg(not(all(not(miri), not(feature = "native"), target_arch = "x86_64", target_os = "linux")))]
fn sysseam_deadlock_streak() -> u64 {
    0
}

pub fn set_thread_entropy(seed: Option<u64>) {
    ENTROPY.with(|e| e.set(seed));
}

/// Iteration order of a std HashMap built on this thread: the canary that the
/// entropy seam is live.
pub fn hashmap_order_canary() -> u64 {
    let mut m = std::collections::HashMap::new();
    for i in 0..64u32 {
        m.insert(i, ());
    }
    let mut h = 0u64;
    for (k, _) in m.iter() {
        h = h.wrapping_mul(1099511628211).wrapping_add(*k as u64 + 1);
    }
    h
}

#[cfg(not(feature = "native"))]
mod sched {
    use super::*;
    // ---------------------------------------------------------------------------
    // the scheduler

    #[derive(Default)]
    pub struct Recorder {
        pub rec: ScheduleRec,
        pub stats: RunStats,
    }

    enum Mode {
        Draw { rng: Rng, strategy: Strategy, prio: Vec<u64>, change_points: Vec<u64>, low: u64 },
        Replay { rec: ScheduleRec, tpos: usize, rpos: usize, strict: bool },
    }

    pub struct SimScheduler {
        mode: Mode,
        shared: Arc<Mutex<Recorder>>,
        started: bool,
        steps: u64,
        // per-task number of times it was scheduled: feeds the interleaving hash
        progress: Vec<u32>,
        /// (Lowest strategy) tasks whose last scheduling point was a yield
        parked: Vec<bool>,
    }

    impl SimScheduler {
        pub fn new(knobs: &SimKnobs, replay: Option<(ScheduleRec, bool)>, shared: Arc<Mutex<Recorder>>) -> Self {
            let mode = match replay {
                Some((rec, strict)) => Mode::Replay { rec, tpos: 0, rpos: 0, strict },
                None => {
                    let mut rng = Rng::new(knobs.sched_seed);
                    let mut change_points = Vec::new();
                    if let Strategy::Pct { depth, horizon } = &knobs.strategy {
                        for _ in 0..depth.saturating_sub(1) {
                            change_points.push(rng.below((*horizon).max(1) as u64));
                        }
                    }
                    Mode::Draw { rng, strategy: knobs.strategy.clone(), prio: Vec::new(), change_points, low: 0 }
                }
            };
            SimScheduler { mode, shared, started: false, steps: 0, progress: Vec::new(), parked: Vec::new() }
        }
    }

    /// the runnable task after `cur` in cyclic id order: a yielding task waits for all others first
    fn fair_next(ids: &[usize], cur: Option<usize>) -> usize {
        let c = cur.unwrap_or(usize::MAX);
        ids.iter().copied().filter(|i| *i > c && c != usize::MAX).min().unwrap_or_else(|| *ids.iter().min().unwrap())
    }

    impl Scheduler for SimScheduler {
        fn new_execution(&mut self) -> Option<Schedule> {
            if self.started {
                None
            } else {
                self.started = true;
                Some(Schedule::new(0))
            }
        }

        fn next_task(&mut self, runnable: &[&Task], current: Option<TaskId>, is_yielding: bool) -> Option<TaskId> {
            let ids: Vec<usize> = runnable.iter().map(|t| usize::from(t.id())).collect();
            let cur = current.map(usize::from);
            let cur_runnable = cur.map(|c| ids.contains(&c)).unwrap_or(false);
            let mut diverged = false;
            let chosen = match &mut self.mode {
                Mode::Replay { rec, tpos, strict, .. } => {
                    let want = rec.tasks.get(*tpos).map(|x| *x as usize);
                    *tpos += 1;
                    match want {
                        Some(w) if ids.contains(&w) => w,
                        _ => {
                            diverged = true;
                            if *strict {
                                // reported by the caller as a harness error, never as a violation
                                self.shared.lock().unwrap().stats.replay_divergences += 1;
                            }
                            if is_yielding {
                                fair_next(&ids, cur)
                            } else if cur_runnable {
                                cur.unwrap()
                            } else {
                                *ids.iter().min().unwrap()
                            }
                        }
                    }
                }
                Mode::Draw { rng, strategy, prio, change_points, low } => match strategy {
                    Strategy::Random => ids[rng.usize_below(ids.len())],
                    Strategy::Lowest => {
                        // a task that yielded (spin relief, futex wait) stays parked until every other runnable task
                        // has yielded or blocked as well: otherwise the lowest id would spin with one step of
                        // progress for the others per relief
                        if let Some(c) = cur {
                            if self.parked.len() <= c {
                                self.parked.resize(c + 1, false);
                            }
                            self.parked[c] = is_yielding;
                        }
                        let awake: Vec<usize> = ids.iter().copied().filter(|i| !self.parked.get(*i).copied().unwrap_or(false)).collect();
                        if let Some(m) = awake.iter().min() {
                            *m
                        } else {
                            for p in self.parked.iter_mut() {
                                *p = false;
                            }
                            fair_next(&ids, cur)
                        }
                    }
                    Strategy::Bursty { q } => {
                        if cur_runnable && !is_yielding && rng.below((*q).max(1) as u64) != 0 {
                            cur.unwrap()
                        } else {
                            let others: Vec<usize> = ids.iter().copied().filter(|i| Some(*i) != cur).collect();
                            if others.is_empty() {
                                ids[0]
                            } else {
                                others[rng.usize_below(others.len())]
                            }
                        }
                    }
                    Strategy::Sticky { keep } => {
                        if cur_runnable && !is_yielding && rng.below(256) < *keep as u64 {
                            cur.unwrap()
                        } else {
                            ids[rng.usize_below(ids.len())]
                        }
                    }
                    Strategy::Pct { .. } => {
                        let maxid = *ids.iter().max().unwrap();
                        while prio.len() <= maxid {
                            // high bit set: initial priorities are above every demoted one
                            prio.push((rng.u64() >> 1) | (1 << 62));
                        }
                        if ids.len() > 1 {
                            if change_points.contains(&self.steps) || is_yielding {
                                if let Some(c) = cur {
                                    // demote below everything seen so far
                                    *low += 1;
                                    if c < prio.len() {
                                        prio[c] = (1 << 61) - *low;
                                    }
                                }
                            }
                            self.steps += 1;
                        }
                        *ids.iter().max_by_key(|i| prio[**i]).unwrap()
                    }
                },
            };
            if self.progress.len() <= chosen {
                self.progress.resize(chosen + 1, 0);
            }
            self.progress[chosen] += 1;
            {
                let mut sh = self.shared.lock().unwrap();
                sh.rec.tasks.push(chosen as u32);
                let st = &mut sh.stats;
                st.decisions += 1;
                if ids.len() == 1 {
                    st.forced_decisions += 1;
                }
                if ids.len() as u64 > st.max_runnable {
                    st.max_runnable = ids.len() as u64;
                }
                if cur.is_some() && cur != Some(chosen) {
                    st.context_switches += 1;
                    // identity of the interleaving: where each switch happened, in
                    // task-local progress units
                    let c = cur.unwrap();
                    let p = self.progress.get(c).copied().unwrap_or(0) as u64;
                    st.interleaving_hash = (st.interleaving_hash ^ ((c as u64) << 40 | (chosen as u64) << 24 | p))
                        .wrapping_mul(0x100000001b3)
                        .rotate_left(7);
                }
                if diverged {
                    st.replay_divergences += 0; // counted above only in strict mode
                }
            }
            Some(TaskId::from(chosen))
        }

        fn next_u64(&mut self) -> u64 {
            let v = match &mut self.mode {
                Mode::Replay { rec, rpos, .. } => {
                    let v = rec.randoms.get(*rpos).copied();
                    *rpos += 1;
                    // lenient default: "not stolen"
                    v.unwrap_or(u64::MAX)
                }
                Mode::Draw { rng, .. } => rng.u64(),
            };
            let mut sh = self.shared.lock().unwrap();
            sh.rec.randoms.push(v);
            sh.stats.randoms += 1;
            v
        }
    }


}
#[cfg(not(feature = "native"))]
use sched::*;

// ---------------------------------------------------------------------------
// executor

pub struct SimOutcome<T> {
    /// None: the closure did not complete (deadlock, harness limit, shuttle error)
    pub value: Option<T>,
    pub abort_msg: Option<String>,
    pub schedule: ScheduleRec,
    pub stats: RunStats,
    pub pool: PoolStats,
}

#[cfg(not(feature = "native"))]
pub type PoolStats = rayon_core::sim::Stats;

/// Native / Miri leg: the real rayon-core runs, nothing to count.
#[cfg(feature = "native")]
#[derive(Clone, Debug, Default)]
pub struct PoolStats {
    pub joins: u64,
    pub steals: u64,
    pub scope_spawns: u64,
    pub max_live_workers: u64,
    pub split_tree_hash: u64,
    pub max_depth: u64,
    pub panicked_joins: u64,
    pub unusual_entry: u64,
}

pub const RUN_STACK: usize = 64 << 20;
/// consecutive 20 ms polls in which the simulation thread was asleep (state S) with no CPU progress
pub const STUCK_POLLS: u32 = 12;
/// at most this many edge scheduling points per run (deterministic bound on the cost of a run)
pub const EDGE_SWITCH_BUDGET: u64 = 1_500_000;
/// every this many atomic operations of a run, the scheduling point is a YIELD (see atomic_point)
pub const SPIN_RELIEF_EVERY: u64 = 4096;

// A stuck run leaves its threads behind, and one of them still HOLDS the lock it was preempted in.  If that lock
// is process-wide (a `static Mutex` in the code under test) every later run in this process would park on it too:
// the process is tainted.  Worker processes therefore never retry in place: they report the run and the next
// coarser preemption level and exit; the driver restarts a fresh worker at that run (framework::run_batch).
/// set by the simulation thread when it detects that no task can make progress (sysseam), read by run_sim
static DEADLOCKED: std::sync::atomic::AtomicBool = std::sync::atomic::AtomicBool::new(false);
static TAINTED: std::sync::atomic::AtomicBool = std::sync::atomic::AtomicBool::new(false);
static RESPAWN_MODE: std::sync::atomic::AtomicBool = std::sync::atomic::AtomicBool::new(false);
/// preemption level the next parallel run starts at: 0 as planned, 1 no edge points, 2 task-granular
static START_LEVEL: std::sync::atomic::AtomicU8 = std::sync::atomic::AtomicU8::new(0);

/// The code under test uses thread-locals (see /verif/check): user closures run to completion, because all
/// simulated tasks share one OS thread and an in-closure switch would let two tasks see one thread-local that
/// real worker threads keep apart (an artefact that could raise an alarm on correct code).
static TLS_MODE: std::sync::atomic::AtomicBool = std::sync::atomic::AtomicBool::new(false);

pub fn tls_mode() -> bool {
    TLS_MODE.load(std::sync::atomic::Ordering::SeqCst)
}

/// Read the list of thread-local symbols of the parallel build written by `./check` next to this binary.
pub fn init_tls_mode() -> Vec<String> {
    let Some(p) = std::env::current_exe().ok().and_then(|e| e.parent().map(|d| d.join("walrus_par.tls"))) else { return vec![] };
    let syms: Vec<String> = std::fs::read_to_string(p).unwrap_or_default().lines().map(|l| l.trim().to_string()).filter(|l| !l.is_empty()).collect();
    TLS_MODE.store(!syms.is_empty(), std::sync::atomic::Ordering::SeqCst);
    syms
}

pub fn tainted() -> bool {
    TAINTED.load(std::sync::atomic::Ordering::SeqCst)
}
pub fn set_tainted() {
    TAINTED.store(true, std::sync::atomic::Ordering::SeqCst)
}
pub fn respawn_mode() -> bool {
    RESPAWN_MODE.load(std::sync::atomic::Ordering::SeqCst)
}
pub fn set_respawn_mode(on: bool) {
    RESPAWN_MODE.store(on, std::sync::atomic::Ordering::SeqCst)
}
pub fn start_level() -> u8 {
    START_LEVEL.load(std::sync::atomic::Ordering::SeqCst)
}
pub fn set_start_level(l: u8) {
    START_LEVEL.store(l, std::sync::atomic::Ordering::SeqCst)
}

fn panic_text(p: Box<dyn std::any::Any + Send>) -> String {
    if let Some(s) = p.downcast_ref::<&str>() {
        s.to_string()
    } else if let Some(s) = p.downcast_ref::<String>() {
        s.clone()
    } else {
        "<non-string panic>".into()
    }
}

/// (state letter, utime+stime in clock ticks) of a thread of this process, from /proc.
fn thread_state(tid: i32) -> (u8, u64) {
    let Ok(s) = std::fs::read_to_string(format!("/proc/self/task/{}/stat", tid)) else { return (b'?', 0) };
    // the command name is in parentheses and may contain spaces: fields start after the last ')'
    let Some(p) = s.rfind(')') else { return (b'?', 0) };
    let f: Vec<&str> = s[p + 1..].split_whitespace().collect();
    let state = f.first().and_then(|x| x.bytes().next()).unwrap_or(b'?');
    let ut: u64 = f.get(11).and_then(|x| x.parse().ok()).unwrap_or(0);
    let st: u64 = f.get(12).and_then(|x| x.parse().ok()).unwrap_or(0);
    (state, ut + st)
}

/// Run `f` on a fresh OS thread with the given entropy, outside any simulated
/// schedule (serial build, reference runs).
pub fn run_plain<T: Send + 'static>(entropy: Option<u64>, stack: usize, f: impl FnOnce() -> T + Send + 'static) -> Result<T, String> {
    let h = std::thread::Builder::new()
        .stack_size(stack)
        .spawn(move || {
            QUIET.with(|q| q.set(true));
            set_thread_entropy(entropy);
            f()
        })
        .expect("spawn run thread");
    h.join().map_err(panic_text)
}

#[cfg(not(feature = "native"))]
mod simexec {
    use super::*;
    /// Run `f` as the root task of one simulated schedule.
    pub fn run_sim<T: Send + 'static>(
        knobs: &SimKnobs,
        replay: Option<(ScheduleRec, bool)>,
        entropy: Option<u64>,
        f: impl Fn() -> T + Send + Sync + 'static,
    ) -> SimOutcome<T> {
        let mut knobs = knobs.clone();
        if tls_mode() {
            knobs.edge_thin = 0;
            knobs.log_thin = 0;
            knobs.atomic_thin = 0;
        }
        let shared = Arc::new(Mutex::new(Recorder::default()));
        let shared2 = shared.clone();
        let slot: Arc<Mutex<Option<T>>> = Arc::new(Mutex::new(None));
        let slot2 = slot.clone();
        let (done_tx, done_rx) = std::sync::mpsc::channel::<()>();
        let (tid_tx, tid_rx) = std::sync::mpsc::channel::<i32>();
        let h = std::thread::Builder::new()
            .stack_size(RUN_STACK)
            .spawn(move || {
                let _ = tid_tx.send(unsafe { libc::gettid() });
                QUIET.with(|q| q.set(true));
                set_thread_entropy(entropy);
                let sched = SimScheduler::new(&knobs, replay, shared2);
                let mut cfg = shuttle::Config::new();
                cfg.stack_size = 1 << 20;
                cfg.failure_persistence = shuttle::FailurePersistence::None;
                cfg.max_steps = shuttle::MaxSteps::None;
                cfg.silence_warnings = true;
                rayon_core::sim::begin(rayon_core::sim::Knobs { threads: knobs.threads as usize, steal_p: knobs.steal_p });
                ACTIVE.with(|a| a.set(true));
                THIN.with(|t| t.set(knobs.log_thin));
                EDGE_THIN.with(|t| t.set(knobs.edge_thin));
                ATOMIC_THIN.with(|t| t.set(knobs.atomic_thin));
                ATOMIC_COUNTER.with(|c| c.set(0));
                FUTEX_YIELDS.with(|c| c.set(0));
                SPURIOUS.with(|c| c.set((knobs.spurious_wake, knobs.sched_seed.rotate_left(41))));
                #[cfg(all(not(miri), target_arch = "x86_64", target_os = "linux"))]
                sysseam::reset();
                PROGRESS.with(|c| c.set(0));
                FUTEX_STREAK.with(|c| c.set((0, 0)));
                EDGE_COUNTER.with(|c| c.set(0));
                EDGE_SWITCHES.with(|c| c.set(0));
                COUNTER.with(|c| c.set(0));
                STATS.with(|s| *s.borrow_mut() = RunStats::default());
                log::set_max_level(log::LevelFilter::Trace);
                let runner = shuttle::Runner::new(sched, cfg);
                let r = std::panic::catch_unwind(std::panic::AssertUnwindSafe(|| {
                    runner.run(move || {
                        let v = f();
                        *slot2.lock().unwrap() = Some(v);
                    });
                }));
                log::set_max_level(log::LevelFilter::Off);
                ACTIVE.with(|a| a.set(false));
                let pool = rayon_core::sim::end();
                let mut stats = STATS.with(|s| s.borrow().clone());
                stats.edges_seen = EDGE_COUNTER.with(|c| c.get());
                stats.atomic_ops_seen = ATOMIC_COUNTER.with(|c| c.get());
                EDGE_THIN.with(|t| t.set(0));
                ATOMIC_THIN.with(|t| t.set(0));
                let _ = done_tx.send(());
                (r.err().map(panic_text), stats, pool)
            })
            .expect("spawn sim thread");
        // A task preempted while it holds a std lock (code under test that brings its own Mutex) blocks the
        // whole single-threaded simulation for ever: the next task that wants the lock parks the OS thread.
        // That is an artefact of cooperative scheduling, not a deadlock of the code.  It is recognised by the
        // STATE of the simulation thread, not by a wall-clock deadline (a slow but live run is never cut off):
        // a live run is always runnable; a run parked on a lock sleeps and its CPU time stands still.
        let tid = tid_rx.recv().unwrap_or(0);
        let mut asleep_polls = 0u32;
        let mut last_cpu = u64::MAX;
        loop {
            match done_rx.recv_timeout(std::time::Duration::from_millis(20)) {
                Ok(()) => break,
                Err(std::sync::mpsc::RecvTimeoutError::Disconnected) => break,
                Err(std::sync::mpsc::RecvTimeoutError::Timeout) => {
                    let (state, cpu) = thread_state(tid);
                    if state == b'S' && cpu == last_cpu {
                        asleep_polls += 1;
                    } else {
                        asleep_polls = 0;
                    }
                    last_cpu = cpu;
                    if asleep_polls >= STUCK_POLLS {
                        log::set_max_level(log::LevelFilter::Off);
                        set_tainted();
                        std::mem::forget(h);
                        if DEADLOCKED.swap(false, std::sync::atomic::Ordering::SeqCst) {
                            // the schedule that led there is complete in the recorder (the parked thread is
                            // inside a task, not inside the scheduler)
                            let rec = std::mem::take(&mut *shared.lock().unwrap());
                            return SimOutcome {
                                value: None,
                                abort_msg: Some(format!(
                                    "DEADLOCK-IN-SIM: every runnable task of the parallel build waits on a lock / condition (futex) and none executed any code over {} consecutive scheduling decisions",
                                    sysseam_deadlock_streak()
                                )),
                                schedule: rec.rec,
                                stats: rec.stats,
                                pool: Default::default(),
                            };
                        }
                        return SimOutcome {
                            value: None,
                            abort_msg: Some("STUCK-IN-SIM: the simulation thread sleeps without consuming CPU; a task was preempted while holding a std lock".into()),
                            schedule: ScheduleRec::default(),
                            stats: RunStats::default(),
                            pool: Default::default(),
                        };
                    }
                }
            }
        }
        let (abort_msg, tl_stats, pool) = match h.join() {
            Ok(x) => x,
            Err(p) => (Some(format!("sim thread died: {}", panic_text(p))), RunStats::default(), Default::default()),
        };
        let rec = std::mem::take(&mut *shared.lock().unwrap());
        let mut stats = rec.stats;
        stats.sched_points_parse = tl_stats.sched_points_parse;
        stats.sched_points_emit = tl_stats.sched_points_emit;
        stats.sched_points_other = tl_stats.sched_points_other;
        stats.sched_points_instr_loc = tl_stats.sched_points_instr_loc;
    stats.sched_points_edge = tl_stats.sched_points_edge;
    stats.sched_points_atomic = tl_stats.sched_points_atomic;
    stats.atomic_ops_seen = tl_stats.atomic_ops_seen;
    stats.futex_waits_as_yield = tl_stats.futex_waits_as_yield;
    stats.futex_timeouts_fired = tl_stats.futex_timeouts_fired;
    stats.spin_relief_yields = tl_stats.spin_relief_yields;
    stats.futex_wakes = tl_stats.futex_wakes;
    stats.futex_spurious_wakeups = tl_stats.futex_spurious_wakeups;
    stats.edges_seen = tl_stats.edges_seen;
        stats.log_records = tl_stats.log_records;
        let value = slot.lock().unwrap().take();
        SimOutcome { value, abort_msg, schedule: rec.rec, stats, pool }
    }

    /// shuttle installs its own (chatty) panic hook once, at the first execution;
    /// trigger that now and then put the silent hook back.
    pub fn warm_up() {
        let knobs = SimKnobs { threads: 2, steal_p: 65536, log_thin: 1, strategy: Strategy::Random, sched_seed: 0, edge_thin: 0, atomic_thin: 0, spurious_wake: 0 };
        let o = run_sim(&knobs, None, Some(0), || {
            let (a, b) = rayon_core::join(|| 1, || 2);
            a + b
        });
        assert_eq!(o.value, Some(3), "simulator warm-up failed: {:?}", o.abort_msg);
        assert_eq!(o.pool.steals, 1, "simulator warm-up: the stolen side did not run as its own task");
        install_panic_hook();
    }

}
#[cfg(not(feature = "native"))]
pub use simexec::*;

#[cfg(feature = "native")]
mod nativeexec {
    use super::*;

    /// The REAL rayon pool of `knobs.threads` workers; the schedule is whatever the OS (or Miri) makes it.
    pub fn run_sim<T: Send + 'static>(
        knobs: &SimKnobs,
        _replay: Option<(ScheduleRec, bool)>,
        entropy: Option<u64>,
        f: impl Fn() -> T + Send + Sync + 'static,
    ) -> SimOutcome<T> {
        let threads = knobs.threads.max(1) as usize;
        let thin = knobs.log_thin;
        let h = std::thread::Builder::new()
            .stack_size(RUN_STACK)
            .spawn(move || {
                QUIET.with(|q| q.set(true));
                set_thread_entropy(entropy);
                let pool = rayon::ThreadPoolBuilder::new()
                    .num_threads(threads)
                    .stack_size(8 << 20)
                    .start_handler(move |_| {
                        QUIET.with(|q| q.set(true));
                        ACTIVE.with(|a| a.set(true));
                        THIN.with(|t| t.set(thin));
                    })
                    .build()
                    .expect("build rayon pool");
                log::set_max_level(log::LevelFilter::Trace);
                let r = std::panic::catch_unwind(std::panic::AssertUnwindSafe(|| pool.install(&f)));
                log::set_max_level(log::LevelFilter::Off);
                drop(pool);
                r.map_err(panic_text)
            })
            .expect("spawn native thread");
        let (value, abort_msg) = match h.join() {
            Ok(Ok(v)) => (Some(v), None),
            Ok(Err(e)) => (None, Some(e)),
            Err(p) => (None, Some(format!("native thread died: {}", panic_text(p)))),
        };
        SimOutcome { value, abort_msg, schedule: ScheduleRec::default(), stats: RunStats::default(), pool: PoolStats::default() }
    }

    pub fn warm_up() {
        install_panic_hook();
    }
}
#[cfg(feature = "native")]
pub use nativeexec::*;
