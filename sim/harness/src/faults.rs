//! Storage faults on module bytes: what a truncated, torn, bit-rotted or
//! half-overwritten file looks like to `Module::parse`.  Placement is
//! structure-aware (uniform over sections, then inside the chosen section),
//! because uniformly random offsets mostly land in the code section.
//! Every fault is fully resolved (offsets, values) when it is drawn, so a case
//! replays without a PRNG.

use crate::prng::Rng;
use crate::wasmsplit::{self, leb_u32_padded, read_leb_u32, Section};
use serde::{Deserialize, Serialize};

#[derive(Serialize, Deserialize, Clone, Debug, PartialEq, Eq)]
pub enum Fault {
    Truncate { at: usize },
    BitFlip { at: usize, bit: u8 },
    ByteSet { at: usize, val: u8 },
    /// lost write: `len` bytes vanish
    ChunkDelete { at: usize, len: usize },
    /// duplicated write: `len` bytes appear twice
    ChunkDup { at: usize, len: usize },
    /// lost sector: `len` bytes read back as zero
    ZeroFill { at: usize, len: usize },
    /// torn write: prefix of this file up to `at`, then `tail` (the suffix of another module)
    Splice { at: usize, tail_hex: String },
    /// a LEB field of `old_len` bytes at `at` replaced by `value` encoded in `new_len` bytes
    LebReplace {
        at: usize,
        old_len: usize,
        value: u32,
        new_len: usize,
        /// re-encode the size of the enclosing section (and function body) so that only this field is wrong
        #[serde(default)]
        fix_framing: bool,
    },
    SectionDrop { idx: usize },
    SectionDup { idx: usize },
    SectionSwap { a: usize, b: usize },
    /// an EMPTY section (id, size 1, count 0) written in front of section `at` (a duplicate, an out-of-order
    /// section, or a count that disagrees with a later section: what only whole-module validation catches)
    #[serde(alias = "EmptySection")]
    EmptySectionInsert { id: u8, at: usize },
    /// the data count section announces `value` segments (written over the existing section, or inserted in
    /// front of the code / data section): fewer or more than the data section then brings
    DataCountSet { value: u32 },
    /// a construct of an unsupported proposal grafted in: 0 tag section, 1 GC struct type, 2 component header
    Graft { kind: u8 },
    /// an edit inside function body `func` of the code section (what a buggy producer writes):
    /// `del` bytes at body offset `at` replaced by `ins`, with the body size and section size re-encoded
    BodyEdit {
        func: usize,
        at: usize,
        del: usize,
        ins_hex: String,
        /// 0 opcode snippet, 1 over-long LEB, 2 multi-memory memarg bit, 3 two-byte zero index
        #[serde(default)]
        tag: u8,
    },
}

impl Fault {
    pub fn kind(&self) -> &'static str {
        match self {
            Fault::Truncate { .. } => "truncate",
            Fault::BitFlip { .. } => "bitflip",
            Fault::ByteSet { .. } => "byte_set",
            Fault::ChunkDelete { .. } => "chunk_delete",
            Fault::ChunkDup { .. } => "chunk_dup",
            Fault::ZeroFill { .. } => "zero_fill",
            Fault::Splice { .. } => "torn_splice",
            Fault::LebReplace { .. } => "leb_replace",
            Fault::SectionDrop { .. } => "section_drop",
            Fault::SectionDup { .. } => "section_dup",
            Fault::SectionSwap { .. } => "section_swap",
            Fault::EmptySectionInsert { .. } => "empty_section_insert",
            Fault::DataCountSet { .. } => "data_count_set",
            Fault::Graft { .. } => "feature_graft",
            Fault::BodyEdit { tag, .. } => match tag {
                1 => "overlong_leb_in_body",
                2 => "memarg_multi_memory_bit",
                3 => "two_byte_zero_index",
                4 => "leb_replace_framing_fixed",
                _ => "body_edit",
            },
        }
    }
}

/// Apply one fault.  Returns false if it could not fire on these bytes
/// (out of range after an earlier fault changed the layout).
pub fn apply(b: &mut Vec<u8>, f: &Fault) -> bool {
    // defensive: a bounds slip in the injector must never take a worker down
    let mut copy = b.clone();
    match std::panic::catch_unwind(std::panic::AssertUnwindSafe(|| apply_inner(&mut copy, f))) {
        Ok(true) => {
            *b = copy;
            true
        }
        _ => false,
    }
}

fn apply_inner(b: &mut Vec<u8>, f: &Fault) -> bool {
    match f {
        Fault::Truncate { at } => {
            if *at >= b.len() {
                return false;
            }
            b.truncate(*at);
            true
        }
        Fault::BitFlip { at, bit } => {
            if *at >= b.len() {
                return false;
            }
            b[*at] ^= 1 << (bit % 8);
            true
        }
        Fault::ByteSet { at, val } => {
            if *at >= b.len() || b[*at] == *val {
                return false;
            }
            b[*at] = *val;
            true
        }
        Fault::ChunkDelete { at, len } => {
            if *at >= b.len() || *len == 0 {
                return false;
            }
            let end = (*at + *len).min(b.len());
            b.drain(*at..end);
            true
        }
        Fault::ChunkDup { at, len } => {
            if *at >= b.len() || *len == 0 {
                return false;
            }
            let end = (*at + *len).min(b.len());
            let chunk: Vec<u8> = b[*at..end].to_vec();
            let tail = b.split_off(end);
            b.extend_from_slice(&chunk);
            b.extend_from_slice(&tail);
            true
        }
        Fault::ZeroFill { at, len } => {
            if *at >= b.len() || *len == 0 {
                return false;
            }
            let end = (*at + *len).min(b.len());
            let mut changed = false;
            for x in &mut b[*at..end] {
                if *x != 0 {
                    changed = true;
                }
                *x = 0;
            }
            changed
        }
        Fault::Splice { at, tail_hex } => {
            let Some(tail) = wasmsplit::unhex(tail_hex) else { return false };
            if *at > b.len() {
                return false;
            }
            b.truncate(*at);
            b.extend_from_slice(&tail);
            true
        }
        Fault::LebReplace { at, old_len, value, new_len, fix_framing } => {
            if *at + *old_len > b.len() {
                return false;
            }
            let enc = leb_u32_padded(*value, (*new_len).clamp(1, 5));
            if *fix_framing {
                // keep every enclosing length field consistent: function body (if inside one), then section
                let Some(secs) = wasmsplit::split(b) else { return false };
                let Some(sec) = secs.iter().find(|s| s.payload.contains(at)) else { return false };
                if sec.id == 10 {
                    if let Some(bodies) = code_bodies(b, sec) {
                        if let Some((k, body)) = bodies.iter().enumerate().find(|(_, r)| r.contains(at)) {
                            let f = Fault::BodyEdit { func: k, at: *at - body.start, del: *old_len, ins_hex: wasmsplit::hex(&enc), tag: 4 };
                            return apply_inner(b, &f);
                        }
                    }
                }
                if *at + *old_len > sec.payload.end {
                    return false;
                }
                let mut payload = b[sec.payload.start..*at].to_vec();
                payload.extend_from_slice(&enc);
                payload.extend_from_slice(&b[*at + *old_len..sec.payload.end]);
                let mut out = vec![sec.id];
                wasmsplit::write_leb_u32(payload.len() as u32, &mut out);
                out.extend_from_slice(&payload);
                b.splice(sec.range.clone(), out);
                return true;
            }
            b.splice(*at..*at + *old_len, enc);
            true
        }
        Fault::SectionDrop { idx } => {
            let Some(secs) = wasmsplit::split(b) else { return false };
            let Some(s) = secs.get(*idx) else { return false };
            b.drain(s.range.clone());
            true
        }
        Fault::SectionDup { idx } => {
            let Some(secs) = wasmsplit::split(b) else { return false };
            let Some(s) = secs.get(*idx) else { return false };
            let copy: Vec<u8> = b[s.range.clone()].to_vec();
            let tail = b.split_off(s.range.end);
            b.extend_from_slice(&copy);
            b.extend_from_slice(&tail);
            true
        }
        Fault::DataCountSet { value } => {
            let Some(secs) = wasmsplit::split(b) else { return false };
            let mut sec = vec![12u8];
            let v = wasmsplit::leb_u32(*value);
            sec.extend_from_slice(&wasmsplit::leb_u32(v.len() as u32));
            sec.extend_from_slice(&v);
            if let Some(d) = secs.iter().find(|s| s.id == 12) {
                let tail = b.split_off(d.range.end);
                b.truncate(d.range.start);
                b.extend_from_slice(&sec);
                b.extend_from_slice(&tail);
                return true;
            }
            let at = secs.iter().position(|s| s.id == 10 || s.id == 11).unwrap_or(secs.len());
            match wasmsplit::insert_section(b, at, &sec) {
                Some(nb) => {
                    *b = nb;
                    true
                }
                None => false,
            }
        }
        Fault::EmptySectionInsert { id, at } => {
            let Some(secs) = wasmsplit::split(b) else { return false };
            match wasmsplit::insert_section(b, (*at).min(secs.len()), &[*id, 1, 0]) {
                Some(nb) => {
                    *b = nb;
                    true
                }
                None => false,
            }
        }
        Fault::SectionSwap { a, b: bb } => {
            let Some(secs) = wasmsplit::split(b) else { return false };
            let (Some(x), Some(y)) = (secs.get(*a), secs.get(*bb)) else { return false };
            if a == bb {
                return false;
            }
            let (x, y) = if x.range.start < y.range.start { (x, y) } else { (y, x) };
            let mut out = b[..x.range.start].to_vec();
            out.extend_from_slice(&b[y.range.clone()]);
            out.extend_from_slice(&b[x.range.end..y.range.start]);
            out.extend_from_slice(&b[x.range.clone()]);
            out.extend_from_slice(&b[y.range.end..]);
            *b = out;
            true
        }
        Fault::BodyEdit { func, at, del, ins_hex, .. } => {
            let Some(ins) = wasmsplit::unhex(ins_hex) else { return false };
            let Some(secs) = wasmsplit::split(b) else { return false };
            let Some(code) = secs.iter().find(|s| s.id == 10) else { return false };
            let Some(bodies) = code_bodies(b, code) else { return false };
            let Some(body) = bodies.get(*func) else { return false };
            if *at > body.len() {
                return false;
            }
            let del_end = (*at + *del).min(body.len());
            let mut nb: Vec<u8> = b[body.start..body.start + *at].to_vec();
            nb.extend_from_slice(&ins);
            nb.extend_from_slice(&b[body.start + del_end..body.end]);
            // rebuild the code section payload
            let Some((count, n)) = read_leb_u32(b, code.payload.start) else { return false };
            let mut payload = wasmsplit::leb_u32(count);
            let _ = n;
            for (k, r) in bodies.iter().enumerate() {
                if k == *func {
                    wasmsplit::write_leb_u32(nb.len() as u32, &mut payload);
                    payload.extend_from_slice(&nb);
                } else {
                    wasmsplit::write_leb_u32(r.len() as u32, &mut payload);
                    payload.extend_from_slice(&b[r.clone()]);
                }
            }
            let mut sec = vec![10u8];
            wasmsplit::write_leb_u32(payload.len() as u32, &mut sec);
            sec.extend_from_slice(&payload);
            b.splice(code.range.clone(), sec);
            true
        }
        Fault::Graft { kind } => match kind {
            0 => {
                // a tag section (exception handling): id 13, one tag of type 0
                let Some(secs) = wasmsplit::split(b) else { return false };
                // after the memory section if there is one, else after the last of type/import/function/table
                let pos = secs.iter().filter(|s| s.id != 0 && s.id <= 5).map(|s| s.range.end).max().unwrap_or(8);
                let tail = b.split_off(pos);
                b.extend_from_slice(&[13, 3, 1, 0, 0]);
                b.extend_from_slice(&tail);
                true
            }
            1 => {
                // a GC struct type appended to the type section
                let Some(secs) = wasmsplit::split(b) else { return false };
                let Some(ts) = secs.iter().find(|s| s.id == 1) else { return false };
                let Some((count, n)) = read_leb_u32(b, ts.payload.start) else { return false };
                if ts.payload.start + n > ts.payload.end {
                    return false;
                }
                let mut payload = wasmsplit::leb_u32(count + 1);
                payload.extend_from_slice(&b[ts.payload.start + n..ts.payload.end]);
                payload.extend_from_slice(&[0x5f, 0x01, 0x7f, 0x00]); // struct { field i32 const }
                let mut sec = vec![1u8];
                wasmsplit::write_leb_u32(payload.len() as u32, &mut sec);
                sec.extend_from_slice(&payload);
                b.splice(ts.range.clone(), sec);
                true
            }
            _ => {
                // component-model header: version 0x0d, layer 1
                if b.len() < 8 {
                    return false;
                }
                b[4] = 0x0d;
                b[5] = 0x00;
                b[6] = 0x01;
                b[7] = 0x00;
                true
            }
        },
    }
}

/// Byte ranges of the function bodies (without their size LEB) in a well-framed code section.
pub fn code_bodies(b: &[u8], code: &Section) -> Option<Vec<std::ops::Range<usize>>> {
    let (count, n) = read_leb_u32(b, code.payload.start)?;
    let mut p = code.payload.start + n;
    let mut out = Vec::new();
    for _ in 0..count {
        let (sz, m) = read_leb_u32(b, p)?;
        let start = p + m;
        let end = start.checked_add(sz as usize)?;
        if end > code.payload.end {
            return None;
        }
        out.push(start..end);
        p = end;
    }
    if p != code.payload.end {
        return None;
    }
    Some(out)
}

const OPCODE_SNIPPETS: &[&[u8]] = &[
    &[0x0b],             // end
    &[0x0b, 0x0b],       // end end
    &[0x02, 0x40],       // block
    &[0x03, 0x40],       // loop
    &[0x04, 0x40],       // if
    &[0x05],             // else
    &[0x0c, 0x00],       // br 0
    &[0x0c, 0x05],       // br 5
    &[0x0d, 0x00],       // br_if 0
    &[0x0e, 0x01, 0x00, 0x07], // br_table
    &[0x0f],             // return
    &[0x00],             // unreachable
    &[0x01],             // nop
    &[0x1a],             // drop
    &[0x1b],             // select
    &[0x41, 0x00],       // i32.const 0
    &[0x42, 0x00],       // i64.const 0
    &[0x20, 0x00],       // local.get 0
    &[0x21, 0x63],       // local.set 99
    &[0x10, 0x00],       // call 0
    &[0x11, 0x00, 0x00], // call_indirect
    &[0x12, 0x00],       // return_call 0
    &[0xd2, 0x00],       // ref.func 0
    &[0xd0, 0x70],       // ref.null func
    &[0xfc, 0x08, 0x00, 0x00], // memory.init 0 0
    &[0xfc, 0x09, 0x00], // data.drop 0
    &[0x28, 0x02, 0x00], // i32.load
    &[0xfe, 0x03, 0x00], // atomic.fence
    &[0x06, 0x40],       // try (legacy exceptions)
    &[0x14, 0x00],       // call_ref 0
    &[0xd4],             // ref.as_non_null
];

fn pick_section<'a>(rng: &mut Rng, secs: &'a [Section]) -> Option<&'a Section> {
    if secs.is_empty() {
        None
    } else {
        Some(&secs[rng.usize_below(secs.len())])
    }
}

/// An offset inside a chosen structure: uniform over {preamble, each section},
/// then over {section header, payload}.
fn pick_offset(rng: &mut Rng, b: &[u8], secs: &Option<Vec<Section>>) -> usize {
    if b.is_empty() {
        return 0;
    }
    match secs {
        Some(s) if !s.is_empty() => {
            let k = rng.usize_below(s.len() + 1);
            if k == s.len() {
                return rng.usize_below(8.min(b.len()));
            }
            let sec = &s[k];
            if rng.chance(1, 4) || sec.payload.is_empty() {
                // the id byte or the size LEB
                sec.range.start + rng.usize_below((sec.payload.start - sec.range.start).max(1))
            } else if rng.chance(1, 3) {
                // early in the payload: counts and first entries
                sec.payload.start + rng.usize_below(sec.payload.len().min(12))
            } else {
                sec.payload.start + rng.usize_below(sec.payload.len())
            }
        }
        _ => rng.usize_below(b.len()),
    }
}

/// Positions that hold LEB-encoded counts / sizes / indices.
fn leb_sites(b: &[u8], secs: &[Section]) -> Vec<(usize, usize)> {
    let mut out = Vec::new();
    for s in secs {
        // the section size
        if let Some((_, n)) = read_leb_u32(b, s.range.start + 1) {
            out.push((s.range.start + 1, n));
        }
        if s.id == 0 || s.payload.is_empty() {
            continue;
        }
        // the vector count (for 8 = start: the function index; for 12 = data count: the count)
        if let Some((count, n)) = read_leb_u32(b, s.payload.start) {
            out.push((s.payload.start, n));
            if s.id == 10 {
                // body sizes and local-declaration counts
                let mut p = s.payload.start + n;
                for _ in 0..count.min(2000) {
                    let Some((sz, m)) = read_leb_u32(b, p) else { break };
                    out.push((p, m));
                    if let Some((groups, l)) = read_leb_u32(b, p + m) {
                        out.push((p + m, l));
                        // the run count of the first local-declaration group: drives per-local work
                        if groups > 0 {
                            if let Some((_, r)) = read_leb_u32(b, p + m + l) {
                                out.push((p + m + l, r));
                            }
                        }
                    }
                    p += m + sz as usize;
                    if p >= s.payload.end {
                        break;
                    }
                }
            } else if s.id == 3 {
                // type indices of the functions
                let mut p = s.payload.start + n;
                for _ in 0..count.min(64) {
                    let Some((_, m)) = read_leb_u32(b, p) else { break };
                    out.push((p, m));
                    p += m;
                }
            }
        }
    }
    out
}

/// Draw one fault against the current bytes.  `others` supplies suffixes for torn writes.
pub fn draw(rng: &mut Rng, b: &[u8], others: &[Vec<u8>], enabled: u32) -> Option<Fault> {
    let secs = wasmsplit::split(b);
    for _ in 0..20 {
        let k = rng.below(17) as u32;
        if enabled & (1 << k) == 0 {
            continue;
        }
        let f = match k {
            0 => {
                if b.is_empty() {
                    continue;
                }
                // EOF at an arbitrary byte: inside the preamble, a section header, a LEB, a payload
                let at = match rng.below(4) {
                    0 => rng.usize_below(b.len().min(12)),
                    1 => b.len() - 1 - rng.usize_below(b.len().min(4)),
                    _ => pick_offset(rng, b, &secs),
                };
                Fault::Truncate { at }
            }
            1 => Fault::BitFlip { at: pick_offset(rng, b, &secs), bit: rng.below(8) as u8 },
            2 => Fault::ByteSet { at: pick_offset(rng, b, &secs), val: *rng.pick(&[0x00u8, 0x7f, 0x80, 0xff, 0x0b, 0x40, 0x01]) },
            3 => Fault::ChunkDelete { at: pick_offset(rng, b, &secs), len: 1 + rng.small(64) as usize },
            4 => Fault::ChunkDup { at: pick_offset(rng, b, &secs), len: 1 + rng.small(64) as usize },
            5 => Fault::ZeroFill { at: pick_offset(rng, b, &secs), len: 1 + rng.small(128) as usize },
            6 => {
                if others.is_empty() {
                    continue;
                }
                let o = &others[rng.usize_below(others.len())];
                let osecs = wasmsplit::split(o);
                // at a section boundary of both, or anywhere
                let (at, from) = if rng.bool() {
                    let a = secs.as_ref().and_then(|s| pick_section(rng, s)).map(|s| s.range.start).unwrap_or(0);
                    let f = osecs.as_ref().and_then(|s| pick_section(rng, s)).map(|s| s.range.start).unwrap_or(0);
                    (a, f)
                } else {
                    (pick_offset(rng, b, &secs), pick_offset(rng, o, &osecs))
                };
                let tail = &o[from.min(o.len())..];
                let tail = &tail[..tail.len().min(4096)];
                Fault::Splice { at, tail_hex: wasmsplit::hex(tail) }
            }
            7 | 8 => {
                let Some(s) = &secs else { continue };
                let sites = leb_sites(b, s);
                if sites.is_empty() {
                    continue;
                }
                let (at, old_len) = sites[rng.usize_below(sites.len())];
                let (cur, _) = read_leb_u32(b, at)?;
                let (value, new_len) = if k == 7 {
                    // inflate: the allocation-bomb / loop-bomb shape
                    let v = *rng.pick(&[127u32, 128, 16383, 16384, 1 << 21, 1 << 28, u32::MAX, u32::MAX - 1]);
                    (v, if rng.bool() { old_len.max(wasmsplit::leb_u32(v).len()) } else { wasmsplit::leb_u32(v).len() })
                } else {
                    // bump: dangling references, off-by-one counts
                    let v = if rng.bool() { cur.wrapping_add(1) } else { cur.wrapping_sub(1) };
                    (v, wasmsplit::leb_u32(v).len().max(if rng.bool() { old_len } else { 0 }))
                };
                Fault::LebReplace { at, old_len, value, new_len, fix_framing: rng.chance(2, 3) }
            }
            9 => {
                let Some(s) = &secs else { continue };
                if s.is_empty() {
                    continue;
                }
                match rng.below(5) {
                    4 => {
                        // the number of data segments the data section really has
                        let d = s.iter().find(|x| x.id == 11).and_then(|x| read_leb_u32(b, x.payload.start)).map(|(n, _)| n).unwrap_or(0);
                        let mut cands = vec![d + 1, 0, d + 2];
                        if d > 0 {
                            cands.push(d - 1);
                        }
                        Fault::DataCountSet { value: *rng.pick(&cands) }
                    }
                    0 => Fault::SectionDrop { idx: rng.usize_below(s.len()) },
                    1 => Fault::SectionDup { idx: rng.usize_below(s.len()) },
                    2 => Fault::EmptySectionInsert { id: 1 + rng.below(12) as u8, at: rng.usize_below(s.len() + 1) },
                    _ => Fault::SectionSwap { a: rng.usize_below(s.len()), b: rng.usize_below(s.len()) },
                }
            }
            10 => Fault::Graft { kind: rng.below(3) as u8 },
            14 | 15 | 16 => {
                // encodings that only a later proposal makes legal, inside an otherwise unchanged body
                let Some(s) = &secs else { continue };
                let Some(code) = s.iter().find(|x| x.id == 10) else { continue };
                let Some(bodies) = code_bodies(b, code) else { continue };
                if bodies.is_empty() {
                    continue;
                }
                let func = rng.usize_below(bodies.len());
                let body = bodies[func].clone();
                if k == 14 {
                    // a LEB somewhere in the body re-encoded with redundant continuation bytes
                    // (over-long index / offset encodings: multi-memory, memory64)
                    if body.is_empty() {
                        continue;
                    }
                    let at = rng.usize_below(body.len());
                    let Some((v, n)) = read_leb_u32(b, body.start + at) else { continue };
                    if at + n > body.len() {
                        continue;
                    }
                    let new_len = (n + 1 + rng.usize_below(5)).min(10);
                    Fault::BodyEdit { func, at, del: n, ins_hex: wasmsplit::hex(&leb_u32_padded(v, new_len)), tag: 1 }
                } else {
                    // locate operators with wasmparser's reader (independent of walrus)
                    let mut sites: Vec<(usize, u8)> = Vec::new();
                    let mut r = wasmparser::BinaryReader::new(&b[body.clone()], 0, wasmparser::WasmFeatures::all());
                    let ok = (|| -> Option<()> {
                        let groups = r.read_var_u32().ok()?;
                        for _ in 0..groups {
                            r.read_var_u32().ok()?;
                            r.read::<wasmparser::ValType>().ok()?;
                        }
                        while !r.eof() {
                            let pos = r.original_position();
                            let op = r.read_operator().ok()?;
                            let opcode = b[body.start + pos];
                            let _ = op;
                            sites.push((pos, opcode));
                        }
                        Some(())
                    })();
                    let _ = ok;
                    if k == 15 {
                        // memarg with the multi-memory bit and an explicit memory index 0
                        let mems: Vec<usize> = sites.iter().filter(|(_, o)| (0x28..=0x3e).contains(o)).map(|(p, _)| *p).collect();
                        if mems.is_empty() {
                            continue;
                        }
                        let pos = *rng.pick(&mems);
                        let flags = b[body.start + pos + 1];
                        if flags & 0xc0 != 0 {
                            continue;
                        }
                        Fault::BodyEdit { func, at: pos + 1, del: 1, ins_hex: wasmsplit::hex(&[flags | 0x40, 0x00]), tag: 2 }
                    } else {
                        // memory.size / memory.grow / call_indirect table byte as a two-byte zero
                        let cands: Vec<(usize, usize)> = sites
                            .iter()
                            .filter_map(|(p, o)| match o {
                                0x3f | 0x40 => Some((*p + 1, 1)),
                                _ => None,
                            })
                            .collect();
                        if cands.is_empty() {
                            continue;
                        }
                        let (pos, n) = *rng.pick(&cands);
                        if b[body.start + pos] != 0 {
                            continue;
                        }
                        Fault::BodyEdit { func, at: pos, del: n, ins_hex: wasmsplit::hex(&[0x80, 0x00]), tag: 3 }
                    }
                }
            }
            12 | 13 => {
                let Some(s) = &secs else { continue };
                let Some(code) = s.iter().find(|x| x.id == 10) else { continue };
                let Some(bodies) = code_bodies(b, code) else { continue };
                if bodies.is_empty() {
                    continue;
                }
                let func = rng.usize_below(bodies.len());
                let len = bodies[func].len();
                // anywhere, with a bias to the tail (the final `end`) and the head (locals)
                let at = match rng.below(4) {
                    0 => len.saturating_sub(1 + rng.usize_below(3.min(len.max(1)))),
                    1 => rng.usize_below(len.min(4) + 1),
                    _ => rng.usize_below(len + 1),
                };
                let del = *rng.pick(&[0usize, 0, 1, 2]);
                let ins: &[u8] = if rng.chance(1, 8) { &[] } else { OPCODE_SNIPPETS[rng.usize_below(OPCODE_SNIPPETS.len())] };
                if ins.is_empty() && del == 0 {
                    continue;
                }
                Fault::BodyEdit { func, at, del, ins_hex: wasmsplit::hex(ins), tag: 0 }
            }
            _ => {
                // an index LEB anywhere in the code section: treat a random code byte position as a LEB
                let Some(s) = &secs else { continue };
                let Some(code) = s.iter().find(|x| x.id == 10) else { continue };
                if code.payload.is_empty() {
                    continue;
                }
                let at = code.payload.start + rng.usize_below(code.payload.len());
                let Some((cur, n)) = read_leb_u32(b, at) else { continue };
                let v = if rng.bool() { cur.wrapping_add(1) } else { *rng.pick(&[0u32, 1, 127, 128, 1000, u32::MAX]) };
                Fault::LebReplace { at, old_len: n, value: v, new_len: wasmsplit::leb_u32(v).len(), fix_framing: rng.bool() }
            }
        };
        return Some(f);
    }
    None
}

/// VALID modules that are large in ONE dimension `n` (kinds 10..): parsing must stay (near) linear in it.
/// 10: n functions, each declaring 50 000 locals in one run (the validator's per-function maximum; 6 bytes
///     per function); 11: n types + n tiny functions, one per type; 12: one function of n (`i32.const`, `drop`)
///     pairs; 13: n globals; 14: n exports of one function; 15: one `br_table` with n targets;
///     16: n active data segments; 17: one element segment of n function items; 18: n local-declaration runs of
///     one local each, alternating types, in one function (n <= 50 000); 19: n functions of one type in three
///     distinct small sizes in a repeating pattern (ties everywhere, not sorted by size).
pub fn scale_bomb(n: u32, kind: u8) -> Vec<u8> {
    use wasm_encoder as we;
    let mut m = we::Module::new();
    let mut ts = we::TypeSection::new();
    ts.function([], []);
    if kind == 11 {
        for i in 0..n {
            // distinct signatures: i32 x (i % 7), i64 x (i / 7 % 5), and a result that cycles
            let mut ps: Vec<we::ValType> = vec![we::ValType::I32; (i % 7) as usize];
            ps.extend(std::iter::repeat(we::ValType::I64).take((i / 7 % 5) as usize));
            ps.extend(std::iter::repeat(we::ValType::F32).take((i / 35 % 6) as usize));
            ps.extend(std::iter::repeat(we::ValType::F64).take((i / 210) as usize % 40));
            ts.function(ps, []);
        }
    }
    m.section(&ts);
    let nf: u32 = match kind {
        10 | 11 | 19 => n,
        _ => 1,
    };
    let mut fs = we::FunctionSection::new();
    for i in 0..nf {
        fs.function(if kind == 11 { i + 1 } else { 0 });
    }
    m.section(&fs);
    if kind == 17 {
        let mut t = we::TableSection::new();
        t.table(we::TableType { element_type: we::RefType::FUNCREF, table64: false, minimum: n as u64, maximum: None, shared: false });
        m.section(&t);
    }
    if kind == 16 {
        let mut ms = we::MemorySection::new();
        ms.memory(we::MemoryType { minimum: 1, maximum: None, memory64: false, shared: false, page_size_log2: None });
        m.section(&ms);
    }
    if kind == 13 {
        let mut g = we::GlobalSection::new();
        for i in 0..n {
            g.global(we::GlobalType { val_type: we::ValType::I32, mutable: i % 2 == 0, shared: false }, &we::ConstExpr::i32_const(i as i32));
        }
        m.section(&g);
    }
    if kind == 14 {
        let mut e = we::ExportSection::new();
        for i in 0..n {
            e.export(&format!("e{}", i), we::ExportKind::Func, 0);
        }
        m.section(&e);
    }
    if kind == 17 {
        let mut e = we::ElementSection::new();
        let items: Vec<u32> = vec![0; n as usize];
        e.active(None, &we::ConstExpr::i32_const(0), we::Elements::Functions(&items));
        m.section(&e);
    }
    let mut code = Vec::new();
    wasmsplit::write_leb_u32(nf, &mut code);
    for fi in 0..nf {
        let mut body: Vec<u8> = Vec::new();
        match kind {
            10 => body.extend_from_slice(&[0x01, 0xd0, 0x86, 0x03, 0x7f]),
            19 => {
                // three distinct sizes in a repeating pattern: many ties, not sorted
                body.push(0x00);
                for _ in 0..(fi % 3) {
                    body.extend_from_slice(&[0x41, 0x01, 0x1a]);
                }
            }
            18 => {
                let k = n.min(50_000);
                wasmsplit::write_leb_u32(k, &mut body);
                for i in 0..k {
                    body.extend_from_slice(&[0x01, if i % 2 == 0 { 0x7f } else { 0x7e }]);
                }
            }
            _ => body.push(0x00),
        }
        match kind {
            12 => {
                for _ in 0..n {
                    body.extend_from_slice(&[0x41, 0x01, 0x1a]);
                }
            }
            15 => {
                body.extend_from_slice(&[0x02, 0x40, 0x41, 0x00, 0x0e]);
                wasmsplit::write_leb_u32(n, &mut body);
                for _ in 0..n {
                    body.push(0x00);
                }
                body.push(0x00);
                body.push(0x0b);
            }
            _ => {}
        }
        body.push(0x0b);
        wasmsplit::write_leb_u32(body.len() as u32, &mut code);
        code.extend_from_slice(&body);
    }
    m.section(&we::RawSection { id: 10, data: &code });
    if kind == 16 {
        let mut d = we::DataSection::new();
        for i in 0..n {
            d.active(0, &we::ConstExpr::i32_const((i % 60000) as i32), [i as u8]);
        }
        m.section(&d);
    }
    m.finish()
}

/// Deeply nested control: `depth` nested block/loop/if inside one function.
/// kind 0: all blocks; 1: all loops; 2: all ifs (with an i32 condition each);
/// 3: mixed; 4: blocks with a value result threaded through; 5: unclosed (invalid).
pub fn nest_bomb(depth: u32, kind: u8) -> Vec<u8> {
    use wasm_encoder as we;
    if kind >= 10 {
        return scale_bomb(depth, kind);
    }
    let mut m = we::Module::new();
    let mut ts = we::TypeSection::new();
    ts.function([], []);
    m.section(&ts);
    let mut fs = we::FunctionSection::new();
    fs.function(0);
    m.section(&fs);
    let mut body: Vec<u8> = vec![0x00]; // no locals
    for i in 0..depth {
        let k = if kind == 3 { (i % 3) as u8 } else { kind };
        match k {
            0 | 5 => body.extend_from_slice(&[0x02, 0x40]),
            1 => body.extend_from_slice(&[0x03, 0x40]),
            2 => body.extend_from_slice(&[0x41, 0x01, 0x04, 0x40]),
            4 => body.extend_from_slice(&[0x02, 0x7f]),
            _ => body.extend_from_slice(&[0x02, 0x40]),
        }
    }
    if kind == 4 {
        body.extend_from_slice(&[0x41, 0x07]);
    }
    let closes = if kind == 5 { depth / 2 } else { depth };
    for _ in 0..closes {
        body.push(0x0b);
    }
    if kind == 4 {
        body.push(0x1a); // drop
    }
    body.push(0x0b);
    let mut code = vec![1u8];
    wasmsplit::write_leb_u32(body.len() as u32, &mut code);
    code.extend_from_slice(&body);
    m.section(&we::RawSection { id: 10, data: &code });
    m.finish()
}
