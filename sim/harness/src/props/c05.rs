//! C05 — Parsing is a total, sound and complete validation gate.
//!
//! Storage-fault injection on module bytes plus resource faults (std's default
//! 2 MiB thread stack, an address-space cap, a watchdog), in crash-isolated
//! worker processes.  Oracle: the stand-alone validator under the harness's own
//! statement of walrus's feature set, for both feature configurations.

use crate::faults::{self, Fault};
use crate::framework::{Env, Failure, Outcome, Prop, Tier};
use crate::gen::{self, GenParams, Recipe};
use crate::inputs::{self, Mix};
use crate::life;
use crate::prng::{self, Rng};
use crate::types::*;
use crate::validator;
use crate::wasmsplit;
use serde::{Deserialize, Serialize};
use serde_json::{json, Value};

pub struct C05;

/// std's default stack size for spawned threads: the only size at which a
/// stack overflow counts as a violation.
pub const DEFAULT_THREAD_STACK: usize = 2 << 20;

#[derive(Serialize, Deserialize, Clone, Debug)]
pub struct Case {
    pub victim: InputRef,
    #[serde(default)]
    pub recipe: Option<Recipe>,
    pub faults: Vec<Fault>,
    /// Some((depth, kind)): the input is a nest bomb instead of victim+faults
    #[serde(default)]
    pub bomb: Option<(u32, u8)>,
    /// 0: ModuleConfig::parse on the bytes; 1: Module::from_file_with_config on a scratch file;
    /// 2: missing file; 3: a directory; 4: empty file
    #[serde(default)]
    pub via_file: u8,
    /// other switches (they must not influence the verdict)
    pub cfg_mask: u32,
}

#[derive(Clone, Debug, PartialEq, Eq)]
enum Verdict {
    Ok,
    Err(String),
    Panic(String),
}

fn walrus_parse(env: &Env, bytes: &[u8], cfg: &CfgBits, via_file: u8, tag: u64) -> Result<Verdict, String> {
    let bytes = bytes.to_vec();
    let cfg = cfg.clone();
    let scratch = env.scratch.clone();
    crate::simrt::run_plain(Some(tag), DEFAULT_THREAD_STACK, move || {
        let r = std::panic::catch_unwind(std::panic::AssertUnwindSafe(|| match via_file {
            0 => crate::ser::parse_with(&bytes, &cfg).0.map(|_| ()),
            _ => {
                let path = match via_file {
                    2 => scratch.join("does-not-exist.wasm"),
                    3 => scratch.clone(),
                    _ => scratch.join(format!("in-{:016x}.wasm", tag)),
                };
                if via_file == 1 || via_file == 4 {
                    let content: &[u8] = if via_file == 4 { &[] } else { &bytes };
                    if std::fs::write(&path, content).is_err() {
                        return Err("HARNESS: cannot write scratch file".to_string());
                    }
                }
                let c = crate::ser::make_config(&cfg, &crate::ser::Hooks::default());
                let r = c.parse_file(&path).map(|_| ()).map_err(|e| format!("{:#}", e));
                if via_file == 1 || via_file == 4 {
                    let _ = std::fs::remove_file(&path);
                }
                r
            }
        }));
        match r {
            Ok(Ok(())) => Verdict::Ok,
            Ok(Err(e)) => Verdict::Err(e),
            Err(p) => Verdict::Panic(if let Some(s) = p.downcast_ref::<&str>() {
                s.to_string()
            } else if let Some(s) = p.downcast_ref::<String>() {
                s.clone()
            } else {
                "<non-string panic>".into()
            }),
        }
    })
}

fn build_bytes(case: &Case) -> (Vec<u8>, Vec<&'static str>) {
    if let Some((depth, kind)) = case.bomb {
        return (faults::nest_bomb(depth, kind), vec![if kind >= 10 { "valid_module_large_in_one_dimension" } else { "nest_bomb" }]);
    }
    let mut b = inputs::bytes_of(&case.victim);
    let mut fired = Vec::new();
    for f in &case.faults {
        if faults::apply(&mut b, f) {
            fired.push(f.kind());
        }
    }
    (b, fired)
}

fn offset_of(err: &str) -> Option<usize> {
    let p = err.rfind("(at offset 0x")?;
    let tail = &err[p + 13..];
    let end = tail.find(')')?;
    usize::from_str_radix(&tail[..end], 16).ok()
}

impl Prop for C05 {
    fn id(&self) -> &'static str {
        "C05"
    }
    fn level(&self) -> &'static str {
        "fault_enumeration"
    }
    fn engine(&self) -> &'static str {
        "storage-fault-injector"
    }
    fn runs(&self, tier: Tier) -> u64 {
        match tier {
            Tier::Quick => 120_000,
            Tier::Thorough => 6_000_000,
        }
    }
    fn crash_is_violation(&self) -> bool {
        true
    }
    fn worker_init(&self) {
        worker_limits();
    }

    fn plan(&self, env: &Env, index: u64, rng: &mut Rng) -> Value {
        // a thin deterministic slice: the nest-bomb grid and unstructured bytes
        if index % 97 == 0 {
            let depth = *rng.pick(&[1000u32, 10_000, 20_000, 30_000, 40_000, 43_000, 60_000, 100_000, 300_000, 1_000_000]);
            let kind = rng.below(6) as u8;
            let case = Case { victim: inputs::input_ref("nest-bomb", &[]), recipe: None, faults: vec![], bomb: Some((depth, kind)), via_file: 0, cfg_mask: CfgBits::walrus_default().mask() };
            return serde_json::to_value(case).unwrap();
        }
        if index % 1499 == 11 {
            // VALID modules that are large in one dimension: parsing must neither hang nor blow up
            let kind = 10 + rng.below(9) as u8;
            let n = match kind {
                10 => *rng.pick(&[20u32, 300, 1000]),
                18 => *rng.pick(&[1000u32, 50_000]),
                _ => *rng.pick(&[1000u32, 20_000, 100_000]),
            };
            let case = Case { victim: inputs::input_ref("scale-bomb", &[]), recipe: None, faults: vec![], bomb: Some((n, kind)), via_file: 0, cfg_mask: CfgBits::walrus_default().mask() };
            return serde_json::to_value(case).unwrap();
        }
        if index % 89 == 0 {
            let n = match rng.below(4) {
                0 => 0,
                1 => rng.below(8) as usize,
                _ => rng.below(200) as usize,
            };
            let mut b = rng.bytes(n);
            if rng.bool() && b.len() >= 8 {
                b[..8].copy_from_slice(&[0, 0x61, 0x73, 0x6d, 1, 0, 0, 0]);
            }
            let case = Case { victim: inputs::input_ref("random-bytes", &b), recipe: None, faults: vec![], bomb: None, via_file: rng.below(2) as u8, cfg_mask: CfgBits::walrus_default().mask() };
            return serde_json::to_value(case).unwrap();
        }
        let picked = inputs::pick(env, rng, &Mix { fixture: 35, dodrio: if env.tier == Tier::Quick { 0 } else { 1 }, generated: 65, max_funcs: 16, valid_only: false });
        // a third of the inputs get no fault (the completeness side needs valid modules),
        // a third one fault, a third two to four
        let n_faults = match rng.below(3) {
            0 => 0,
            1 => 1,
            _ => rng.range(2, 4),
        };
        // swarm: a random subset of fault kinds is enabled for this run
        let enabled = if rng.chance(1, 3) { 0x1ffff } else { (rng.u32() & 0x1ffff) | (1 << rng.below(17)) };
        let mut cur = picked.bytes.clone();
        let mut fs = Vec::new();
        for _ in 0..n_faults {
            if let Some(f) = faults::draw(rng, &cur, &env.unrelated, enabled) {
                if faults::apply(&mut cur, &f) {
                    fs.push(f);
                }
            }
        }
        // raw .debug_* sections with arbitrary payloads: parsing must ignore them whatever the switches say
        if rng.chance(1, 12) {
            for name in [".debug_info", ".debug_line", ".debug_abbrev", ".debug_str", ".debug_ranges", ".debug_pubnames"] {
                if rng.chance(1, 2) {
                    let plen = rng.below(60) as usize;
                    let sec = wasmsplit::custom_section_bytes(name.as_bytes(), &rng.bytes(plen));
                    let n = wasmsplit::split(&cur).map(|s| s.len()).unwrap_or(0);
                    let at = rng.usize_below(n + 1);
                    let before = cur.clone();
                    if let Some(nb) = wasmsplit::insert_section(&cur, at, &sec) {
                        // recorded as a splice fault so that the case replays without the PRNG
                        let pos = wasmsplit::split(&before).and_then(|s| s.get(at).map(|x| x.range.start)).unwrap_or(before.len());
                        let mut tail = sec.clone();
                        tail.extend_from_slice(&before[pos..]);
                        if tail.len() <= 200_000 {
                            fs.push(Fault::Splice { at: pos, tail_hex: wasmsplit::hex(&tail) });
                            cur = nb;
                        }
                    }
                }
            }
        }
        let via_file = if rng.chance(1, 12) { 1 + rng.below(4) as u8 } else { 0 };
        let mut cfg = CfgBits::from_mask(rng.below(512) as u32);
        cfg.only_stable = false; // both feature configurations are evaluated for every case
        let case = Case {
            victim: picked.iref,
            recipe: if fs.is_empty() { picked.recipe } else { None },
            faults: fs,
            bomb: None,
            via_file,
            cfg_mask: if rng.chance(1, 2) { CfgBits::walrus_default().mask() } else { cfg.mask() },
        };
        serde_json::to_value(case).unwrap()
    }

    fn execute(&self, env: &Env, case_v: &Value) -> Outcome {
        let mut out = Outcome::default();
        let case: Case = match serde_json::from_value(case_v.clone()) {
            Ok(c) => c,
            Err(e) => {
                out.harness_error = Some(format!("bad case: {}", e));
                return out;
            }
        };
        let (bytes, fired) = build_bytes(&case);
        for k in &fired {
            out.hit(&format!("fault:{}", k));
        }
        if fired.is_empty() {
            out.hit("fault:none");
        }
        match case.via_file {
            1 => out.hit("fault:via_file"),
            2 => out.hit("fault:fs_enoent"),
            3 => out.hit("fault:fs_eisdir"),
            4 => out.hit("fault:fs_empty_file"),
            _ => {}
        }
        let fail = |oracle: &str, detail: String| Some(Failure { oracle: oracle.to_string(), detail, case: case_v.clone() });
        let tag = prng::fnv(&bytes);
        let mut digest = tag;
        // what the bytes on "disk" are for the file modes
        let effective: &[u8] = if case.via_file == 4 { &[] } else { &bytes };
        let mut walrus_ok = [false, false];
        for (k, only_stable) in [false, true].into_iter().enumerate() {
            let mut cfg = CfgBits::from_mask(case.cfg_mask);
            cfg.only_stable = only_stable;
            cfg.probe = false;
            let v = validator::validate(effective, only_stable);
            let w = match walrus_parse(env, &bytes, &cfg, case.via_file, tag ^ k as u64) {
                Ok(w) => w,
                Err(e) => {
                    // the parse thread itself died without unwinding into catch_unwind
                    out.failure = fail("parse_no_panic", format!("parse thread died: {}", life::scrub(&e)));
                    return out;
                }
            };
            digest = prng::mix64(digest, match &w { Verdict::Ok => 1, Verdict::Err(_) => 2, Verdict::Panic(_) => 3 } + 4 * v.is_ok() as u64);
            let cfgname = if only_stable { "only_stable_features" } else { "default" };
            out.hit(&format!(
                "verdict_{}:walrus_{}_validator_{}",
                if only_stable { "stable" } else { "default" },
                match &w {
                    Verdict::Ok => "ok",
                    Verdict::Err(_) => "err",
                    Verdict::Panic(_) => "panic",
                },
                if v.is_ok() { "ok" } else { "err" }
            ));
            if let (Err(e), false) = (&v, only_stable) {
                if let (Some(off), Some(secs)) = (offset_of(e), wasmsplit::split(effective)) {
                    if let Some(s) = secs.iter().find(|s| s.range.contains(&off)) {
                        out.hit(&format!("validator_rejects_in_section_{:02}", s.id));
                        if secs.first().map(|f| f.range.start < s.range.start).unwrap_or(false) {
                            out.hit("rejected_after_at_least_one_accepted_section");
                        }
                    }
                }
            }
            match (&w, &v) {
                (Verdict::Panic(msg), _) => {
                    if msg.starts_with("HARNESS") {
                        out.harness_error = Some(msg.clone());
                        return out;
                    }
                    out.failure = fail("parse_no_panic", format!("[{}] parse panicked: {}", cfgname, life::scrub(msg)));
                    return out;
                }
                (Verdict::Err(e), _) if e.starts_with("HARNESS") => {
                    out.harness_error = Some(e.clone());
                    return out;
                }
                (Verdict::Ok, Err(e)) if case.via_file != 2 && case.via_file != 3 => {
                    out.failure = fail("parse_sound", format!("[{}] walrus accepted bytes the validator rejects: {}", cfgname, e));
                    return out;
                }
                (Verdict::Ok, _) if case.via_file == 2 || case.via_file == 3 => {
                    out.failure = fail("parse_sound", format!("[{}] from_file succeeded on a missing file / a directory", cfgname));
                    return out;
                }
                (Verdict::Err(e), Ok(())) if case.via_file != 2 && case.via_file != 3 => {
                    out.failure = fail("parse_complete", format!("[{}] walrus rejected a module the validator accepts: {}", cfgname, e.chars().take(200).collect::<String>()));
                    return out;
                }
                _ => {}
            }
            walrus_ok[k] = w == Verdict::Ok;
        }
        // the stable-feature gate, against generator-side knowledge of what the victim needs
        if let (Some(r), 0) = (&case.recipe, case.via_file) {
            if r.expect_valid && case.faults.is_empty() {
                let needs = r.needs_multi_memory || r.needs_memory64 || r.needs_threads;
                out.hit(if needs { "gate:victim_needs_unstable_feature" } else { "gate:victim_is_stable" });
                let vd = validator::validate(&bytes, false).is_ok();
                let vs = validator::validate(&bytes, true).is_ok();
                if !vd || (vs == needs) {
                    out.harness_error = Some(format!("generator recipe disagrees with the validator (default {}, stable {}, needs {})", vd, vs, needs));
                    return out;
                }
                if !(walrus_ok[0] && (walrus_ok[1] != needs)) {
                    out.failure = fail(
                        "stable_gate",
                        format!("accepted(default)={} accepted(only_stable)={} but the module {} multi-memory/memory64/threads", walrus_ok[0], walrus_ok[1], if needs { "needs" } else { "does not need" }),
                    );
                    return out;
                }
            }
        }
        out.digest = digest;
        let framed = bytes.len() > 8 && bytes.starts_with(b"\0asm");
        if framed || case.bomb.is_some() {
            out.distinct_key = prng::mix64(tag, case.via_file as u64) | 1;
        }
        out.sample = Some(json!({
            "victim": case.victim.source.chars().take(100).collect::<String>(),
            "faults": case.faults.iter().map(|f| { let mut v = serde_json::to_value(f).unwrap(); if let Some(o) = v.get_mut("Splice") { o["tail_hex"] = json!("..."); } v }).collect::<Vec<_>>(),
            "bomb": case.bomb, "via_file": case.via_file, "bytes": bytes.len(),
            "accepted_default": walrus_ok[0], "accepted_only_stable": walrus_ok[1],
        }));
        out
    }

    fn shrink(&self, case: &Value) -> Vec<Value> {
        let Ok(c) = serde_json::from_value::<Case>(case.clone()) else { return vec![] };
        let mut v: Vec<Case> = Vec::new();
        if let Some((depth, kind)) = c.bomb {
            for d in [depth / 2, depth * 3 / 4, depth - 1] {
                if d > 0 && d < depth {
                    let mut x = c.clone();
                    x.bomb = Some((d, kind));
                    v.push(x);
                }
            }
            return v.into_iter().map(|d| serde_json::to_value(d).unwrap()).collect();
        }
        for i in 0..c.faults.len() {
            let mut d = c.clone();
            d.faults.remove(i);
            v.push(d);
        }
        if c.via_file == 1 {
            let mut d = c.clone();
            d.via_file = 0;
            v.push(d);
        }
        if c.cfg_mask != CfgBits::walrus_default().mask() {
            let mut d = c.clone();
            d.cfg_mask = CfgBits::walrus_default().mask();
            v.push(d);
        }
        // materialise: the faulted bytes become the victim, then whole sections and the tail are removed
        let (bytes, _) = build_bytes(&c);
        if !c.faults.is_empty() {
            let mut d = c.clone();
            d.victim = inputs::input_ref("materialised", &bytes);
            d.faults.clear();
            d.recipe = None;
            v.push(d);
        } else {
            if let Some(secs) = wasmsplit::split(&bytes) {
                for s in secs.iter().rev() {
                    let mut b = bytes[..s.range.start].to_vec();
                    b.extend_from_slice(&bytes[s.range.end..]);
                    let mut d = c.clone();
                    d.victim = inputs::input_ref("shrunk", &b);
                    d.recipe = None;
                    v.push(d);
                }
            }
            for cut in [bytes.len() / 2, bytes.len() * 3 / 4, bytes.len().saturating_sub(1)] {
                if cut < bytes.len() && cut >= 8 {
                    let mut d = c.clone();
                    d.victim = inputs::input_ref("shrunk", &bytes[..cut]);
                    d.recipe = None;
                    v.push(d);
                }
            }
        }
        v.into_iter().map(|d| serde_json::to_value(d).unwrap()).collect()
    }

    fn rule(&self) -> String {
        "one case = (victim module from fixtures / generator / real-world file, 0-4 structure-aware storage faults from 13 kinds with resolved offsets | nest bomb (depth, shape) | unstructured bytes, delivery by buffer or by file incl. missing / directory / empty, other switches); each case is parsed under BOTH feature configurations on a 2 MiB-stack thread; \
         non-trivial = the bytes carry the wasm preamble (walrus gets past the header) or are a nest bomb; distinct = distinct (digest of the delivered bytes, delivery mode)"
            .to_string()
    }
    fn assumptions(&self) -> Vec<String> {
        vec![
            "wasmparser::Validator 0.214 under the harness's own feature constants IS the definition of 'valid module under the configured feature set'".into(),
            "sampling of a fault model, not coverage-guided search; inputs <= ~1 MiB; allocation judged against an 8 GiB address-space cap; error messages are not compared".into(),
            "stack overflow is a violation only at std's default 2 MiB thread stack".into(),
        ]
    }
    fn components(&self) -> Value {
        json!({ "real": ["walrus (serial build): ModuleConfig::parse, Module::from_file_with_config", "wasmparser (inside walrus)", "std::fs on scratch files"], "stub": ["none: the faults are in the stored bytes and in the process limits"] })
    }
}

/// Resource limits for the worker: address space.
pub fn worker_limits() {
    unsafe {
        let lim = libc::rlimit { rlim_cur: 8 << 30, rlim_max: 8 << 30 };
        libc::setrlimit(libc::RLIMIT_AS, &lim);
    }
}

#[allow(dead_code)]
pub fn gen_params_of(source: &str) -> Option<GenParams> {
    source.strip_prefix("gen:").and_then(|s| serde_json::from_str(s).ok())
}

#[allow(dead_code)]
fn _unused(_: gen::Generated) {}
