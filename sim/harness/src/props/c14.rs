//! C14 — Configuration switches do exactly what they document.
//!
//! Configuration swarm (all 512 switch vectors exhaustively on a rotating
//! handful of inputs, sampled elsewhere) x round-trip chains x parse-failure
//! faults; metamorphic section-inventory equalities, a producers model and an
//! exactly-once callback counter.

use crate::faults;
use crate::framework::{Env, Failure, Outcome, Prop, Tier};
use crate::gen::{self, GenParams};
use crate::inputs::{self, Mix};
use crate::life;
use crate::prng::{self, Rng};
use crate::types::*;
use crate::wasmsplit;
use serde::{Deserialize, Serialize};
use serde_json::{json, Value};

pub struct C14;

#[derive(Serialize, Deserialize, Clone, Debug)]
pub struct Case {
    pub input: InputRef,
    /// the switch vector of the first hop
    pub cfg: CfgBits,
    /// switch vectors of the following round trips
    pub chain: Vec<CfgBits>,
    /// storage faults applied to the input (to make the parse fail after some sections were accepted)
    #[serde(default)]
    pub faults: Vec<faults::Fault>,
    #[serde(default)]
    pub exhaustive: bool,
}

type Producers = Vec<(String, Vec<(String, String)>)>;

/// Decode a producers section payload with the independent reader.
fn read_producers(bytes: &[u8]) -> Option<Result<Producers, String>> {
    let secs = wasmsplit::split(bytes)?;
    let mut found: Option<Result<Producers, String>> = None;
    for s in secs.iter().filter(|s| s.id == 0) {
        let v = wasmsplit::custom_view(bytes, s)?;
        if v.name != b"producers" {
            continue;
        }
        if found.is_some() {
            return Some(Err("more than one producers section".into()));
        }
        let data_off = s.payload.end - v.data.len();
        let parse = || -> Result<Producers, String> {
            let r = wasmparser::ProducersSectionReader::new(wasmparser::BinaryReader::new(v.data, data_off, crate::validator::features(false))).map_err(|e| e.to_string())?;
            let mut out = Vec::new();
            for f in r {
                let f = f.map_err(|e| e.to_string())?;
                let mut vals = Vec::new();
                for val in f.values {
                    let val = val.map_err(|e| e.to_string())?;
                    vals.push((val.name.to_string(), val.version.to_string()));
                }
                out.push((f.name.to_string(), vals));
            }
            Ok(out)
        };
        found = Some(parse());
    }
    found
}

fn well_formed(p: &Producers) -> bool {
    let mut names: Vec<&str> = p.iter().map(|f| f.0.as_str()).collect();
    names.sort();
    names.windows(2).all(|w| w[0] != w[1])
}

/// What the documentation promises for the output producers section, given the input's.
fn expected_producers(input: &Producers) -> Vec<(String, Vec<String>)> {
    // names only; walrus's own version string is not compared
    let mut out: Vec<(String, Vec<String>)> = input.iter().map(|(f, vals)| (f.clone(), vals.iter().map(|v| format!("{}={}", v.0, v.1)).collect())).collect();
    match out.iter_mut().find(|f| f.0 == "processed-by") {
        Some(f) => {
            let pos = f.1.iter().position(|v| v.starts_with("walrus="));
            match pos {
                Some(p) => f.1[p] = "walrus=*".into(),
                None => f.1.push("walrus=*".into()),
            }
        }
        None => out.push(("processed-by".into(), vec!["walrus=*".into()])),
    }
    out
}

fn observed_producers(p: &Producers) -> Vec<(String, Vec<String>)> {
    p.iter()
        .map(|(f, vals)| (f.clone(), vals.iter().map(|v| if f == "processed-by" && v.0 == "walrus" { "walrus=*".to_string() } else { format!("{}={}", v.0, v.1) }).collect()))
        .collect()
}

struct Rt {
    ok: bool,
    calls: u32,
    bytes: Option<Vec<u8>>,
    panicked: bool,
}

fn round_trip(env: &Env, input: &[u8], cfg: &CfgBits) -> Result<Rt, String> {
    let ran = life::run_ser(env, input, cfg, &[Op::Emit], &Ambient { entropy: 3, arena_burn: 0, heap_pad: 0 }, prng::fnv(input) ^ cfg.mask() as u64);
    let Some(t) = ran.transcript else { return Err(format!("run did not complete: {:?}", ran.abort)) };
    let mut rt = Rt { ok: false, calls: 0, bytes: None, panicked: false };
    match t.steps.first() {
        Some(StepOut::Parsed { ok, on_parse_calls, .. }) => {
            rt.ok = *ok;
            rt.calls = *on_parse_calls;
        }
        Some(StepOut::Panic { .. }) => rt.panicked = true,
        _ => {}
    }
    if let Some(StepOut::Emit { bytes }) = t.steps.get(1) {
        rt.bytes = Some(bytes.clone());
    } else if matches!(t.steps.get(1), Some(StepOut::Panic { .. })) {
        rt.panicked = true;
    }
    Ok(rt)
}

/// inventory without custom sections of the given name
/// The names an output carries, read with wasmparser's name-section reader (independent of walrus):
/// (namespace, index, sub-index) -> name.  None if the section does not parse.
fn names_of(bytes: &[u8]) -> Option<std::collections::BTreeMap<(u8, u32, u32), String>> {
    use wasmparser::{BinaryReader, Name, NameSectionReader};
    let mut out = std::collections::BTreeMap::new();
    let customs = wasmsplit::customs(bytes)?;
    let Some((_, data)) = customs.iter().find(|(n, _)| n == b"name") else { return Some(out) };
    let rd = NameSectionReader::new(BinaryReader::new(data, 0, wasmparser::WasmFeatures::all()));
    for sub in rd {
        let sub = sub.ok()?;
        let mut flat = |ns: u8, map: wasmparser::NameMap| -> Option<()> {
            for n in map {
                let n = n.ok()?;
                out.insert((ns, n.index, 0), n.name.to_string());
            }
            Some(())
        };
        match sub {
            Name::Module { name, .. } => {
                out.insert((0, 0, 0), name.to_string());
            }
            Name::Function(m) => flat(1, m)?,
            Name::Local(im) => {
                for f in im {
                    let f = f.ok()?;
                    for n in f.names {
                        let n = n.ok()?;
                        out.insert((2, f.index, n.index), n.name.to_string());
                    }
                }
            }
            Name::Type(m) => flat(4, m)?,
            Name::Table(m) => flat(5, m)?,
            Name::Memory(m) => flat(6, m)?,
            Name::Global(m) => flat(7, m)?,
            Name::Element(m) => flat(8, m)?,
            Name::Data(m) => flat(9, m)?,
            _ => {}
        }
    }
    Some(out)
}

fn inventory_without(bytes: &[u8], name: &[u8]) -> Option<Vec<(u8, Vec<u8>, Vec<u8>)>> {
    Some(wasmsplit::inventory(bytes)?.into_iter().filter(|(id, n, _)| !(*id == 0 && n == name)).collect())
}

fn draw_vector(rng: &mut Rng) -> CfgBits {
    let mut c = CfgBits::from_mask(rng.below(512) as u32);
    c.probe = false;
    c
}

const EXH_INPUTS: u64 = 6;

fn exhaustive_input(env: &Env, k: u64) -> inputs::Picked {
    // a fixed rotation: inputs with / without name and producers sections
    let mut r = Rng::new(prng::mix64(0xC14, k));
    let mut p = GenParams::draw(&mut r, 8);
    p.names = [1, 0, 2, 1, 3, 0][k as usize % 6];
    p.producers = [1, 2, 0, 3, 1, 0][k as usize % 6];
    p.n_customs = (k % 3) as u32;
    p.multi_memory = k % 2 == 0;
    let g = gen::generate(&p);
    let _ = env;
    inputs::Picked { iref: inputs::input_ref(&format!("gen:{}", serde_json::to_string(&p).unwrap()), &g.bytes), bytes: g.bytes, recipe: Some(g.recipe) }
}

impl Prop for C14 {
    fn id(&self) -> &'static str {
        "C14"
    }
    fn level(&self) -> &'static str {
        "exploration"
    }
    fn engine(&self) -> &'static str {
        "lifecycle-simulator"
    }
    fn runs(&self, tier: Tier) -> u64 {
        match tier {
            Tier::Quick => 512 * EXH_INPUTS + 5_000,
            Tier::Thorough => 512 * EXH_INPUTS + 400_000,
        }
    }

    fn plan(&self, env: &Env, index: u64, rng: &mut Rng) -> Value {
        if index < 512 * EXH_INPUTS {
            let picked = exhaustive_input(env, index / 512);
            let case = Case { input: picked.iref, cfg: CfgBits::from_mask((index % 512) as u32), chain: vec![], faults: vec![], exhaustive: true };
            return serde_json::to_value(case).unwrap();
        }
        let mut picked = inputs::pick(env, rng, &Mix { fixture: 30, dodrio: if env.tier == Tier::Quick { 0 } else { 1 }, generated: 70, max_funcs: 12, valid_only: false });
        // a late failure: a type error planted in one function body (the callback must not have run)
        if rng.chance(1, 10) {
            let mut gp = GenParams::draw(rng, 10);
            gp.n_funcs = gp.n_funcs.max(2);
            gp.plant_errors = 1;
            let g = gen::generate(&gp);
            picked = inputs::Picked { iref: inputs::input_ref(&format!("gen:{}", serde_json::to_string(&gp).unwrap()), &g.bytes), bytes: g.bytes, recipe: Some(g.recipe) };
        }
        // the LATEST possible failure: every section and every body is fine, only the whole-module checks of the
        // validator's end() fail (function section without code section; a data count that disagrees with the
        // data section).  The callback must not have run.
        if rng.chance(1, 12) {
            if let Some(secs) = wasmsplit::split(&picked.bytes) {
                let b = &picked.bytes;
                let mut nb: Option<Vec<u8>> = None;
                let code = secs.iter().find(|s| s.id == 10);
                let dcount = secs.iter().find(|s| s.id == 12);
                match (rng.below(3), code, dcount) {
                    (0, Some(c), _) => {
                        let mut v = b[..c.range.start].to_vec();
                        v.extend_from_slice(&b[c.range.end..]);
                        nb = Some(v);
                    }
                    (1, _, Some(d)) => {
                        if let Some((n, _)) = wasmsplit::read_leb_u32(b, d.payload.start) {
                            let mut v = b[..d.range.start].to_vec();
                            let val = wasmsplit::leb_u32(if rng.bool() { n + 1 } else { n.saturating_sub(1) });
                            v.push(12);
                            v.extend_from_slice(&wasmsplit::leb_u32(val.len() as u32));
                            v.extend_from_slice(&val);
                            v.extend_from_slice(&b[d.range.end..]);
                            nb = Some(v);
                        }
                    }
                    (_, _, None) => {
                        // a data count section announcing segments that never come: before the code section if
                        // there is one, else at the end of the standard sections
                        let at = secs.iter().position(|s| s.id == 10 || s.id == 11).unwrap_or(secs.iter().rposition(|s| s.id != 0).map(|i| i + 1).unwrap_or(0));
                        let has_data = secs.iter().any(|s| s.id == 11);
                        if !has_data {
                            nb = wasmsplit::insert_section(b, at, &[12, 1, 1 + rng.below(3) as u8]);
                        }
                    }
                    _ => {}
                }
                if let Some(v) = nb {
                    if crate::validator::validate(&v, false).is_err() {
                        picked = inputs::Picked { iref: inputs::input_ref("late-failure-at-validator-end", &v), bytes: v, recipe: None };
                    }
                }
            }
        }
        // a producers section in which walrus appears under fields OTHER than processed-by (legal; those entries are
        // somebody else's data and must survive, and walrus must still be recorded exactly once under processed-by)
        if rng.chance(1, 12) {
            if let Some(secs) = wasmsplit::split(&picked.bytes) {
                let mut b: Vec<u8> = picked.bytes[..8].to_vec();
                for s in &secs {
                    let is_producers = s.id == 0 && wasmsplit::custom_view(&picked.bytes, s).map(|v| v.name == b"producers").unwrap_or(false);
                    if !is_producers {
                        b.extend_from_slice(&picked.bytes[s.range.clone()]);
                    }
                }
                let mut ps = wasm_encoder::ProducersSection::new();
                let mut lang = wasm_encoder::ProducersField::new();
                lang.value("walrus", "");
                lang.value("Rust", "1.70.0");
                ps.field("language", &lang);
                let mut sdk = wasm_encoder::ProducersField::new();
                sdk.value("walrus", "9.9.9");
                ps.field("sdk", &sdk);
                if rng.bool() {
                    let mut pb = wasm_encoder::ProducersField::new();
                    pb.value("clang", "15.0.0");
                    if rng.bool() {
                        pb.value("walrus", "0.19.0");
                    }
                    ps.field("processed-by", &pb);
                }
                let mut m = wasm_encoder::Module::new();
                m.section(&ps);
                b.extend_from_slice(&m.finish()[8..]);
                if crate::validator::validate(&b, false).is_ok() == crate::validator::validate(&picked.bytes, false).is_ok() {
                    picked = inputs::Picked { iref: inputs::input_ref(&format!("{}+producers-walrus-elsewhere", picked.iref.source.chars().take(160).collect::<String>()), &b), bytes: b, recipe: None };
                }
            }
        }
        // raw .debug_* sections (arbitrary payloads): they must never leak into the output while DWARF generation is off
        let mut debug_spliced = false;
        if rng.chance(1, 4) {
            let mut b = picked.bytes.clone();
            for name in [".debug_info", ".debug_line", ".debug_str", ".debug_abbrev", ".debug_pubnames", ".debug_frame", ".debug_macro", ".debug_names", ".debug_foo", ".debug"] {
                if rng.chance(1, 3) {
                    let plen = rng.below(40) as usize;
                    let sec = wasmsplit::custom_section_bytes(name.as_bytes(), &rng.bytes(plen));
                    let n = wasmsplit::split(&b).map(|s| s.len()).unwrap_or(0);
                    if let Some(nb) = wasmsplit::insert_section(&b, rng.usize_below(n + 1), &sec) {
                        b = nb;
                        debug_spliced = true;
                    }
                }
            }
            picked.bytes = b;
        }
        if !debug_spliced {
            picked = inputs::maybe_attach_dwarf_ex(picked, rng, 1, 5, true);
        }
        let (has, synth) = inputs::debug_status(&picked.iref.source, &picked.bytes);
        let has_debug = has && !synth;
        let mut cfg = draw_vector(rng);
        if synth && rng.chance(2, 3) {
            cfg.dwarf = true;
        }
        if has_debug {
            // emission of arbitrary (malformed) DWARF is documented as experimental
            cfg.dwarf = false;
        }
        // a quarter of the cases call preserve_code_transform AFTER generate_dwarf (which then really switches the
        // code-transform capture off although DWARF generation stays on: the switch still only governs DWARF)
        cfg.late_code_transform = rng.chance(1, 4);
        let hops = if rng.chance(1, 2) { 0 } else { rng.range(1, 5) };
        let chain: Vec<CfgBits> = (0..hops)
            .map(|_| {
                let mut c = draw_vector(rng);
                // after the first hop the DWARF is walrus's own output: keep generation off for the later hops
                if has_debug || synth {
                    c.dwarf = false;
                }
                c
            })
            .collect();
        // a fifth of the cases: make the parse fail after some sections were accepted
        let mut fs = Vec::new();
        if rng.chance(1, 5) {
            let mut cur = picked.bytes.clone();
            for _ in 0..rng.range(1, 2) {
                if let Some(f) = faults::draw(rng, &cur, &env.unrelated, 0x1ffff) {
                    if faults::apply(&mut cur, &f) {
                        fs.push(f);
                    }
                }
            }
        }
        if synth && cfg.dwarf {
            fs.clear();
        }
        let case = Case { input: inputs::input_ref(&picked.iref.source, &picked.bytes), cfg, chain, faults: fs, exhaustive: false };
        serde_json::to_value(case).unwrap()
    }

    fn execute(&self, env: &Env, case_v: &Value) -> Outcome {
        let mut out = Outcome::default();
        let case: Case = match serde_json::from_value(case_v.clone()) {
            Ok(c) => c,
            Err(e) => {
                out.harness_error = Some(format!("bad case: {}", e));
                return out;
            }
        };
        let fail = |oracle: &str, detail: String| Some(Failure { oracle: oracle.to_string(), detail, case: case_v.clone() });
        let mut input = inputs::bytes_of(&case.input);
        for f in &case.faults {
            if faults::apply(&mut input, f) {
                out.hit(&format!("fault:{}", f.kind()));
            }
        }
        if case.exhaustive {
            out.hit("exhaustive_switch_vectors");
        }
        let mut digest = prng::fnv(&input);
        let mut hops: Vec<CfgBits> = vec![case.cfg.clone()];
        hops.extend(case.chain.iter().cloned());
        let mut cur = input.clone();
        let mut hop_kinds = Vec::new();
        for (h, v) in hops.iter().enumerate() {
            let mut v = v.clone();
            v.probe = false;
            // M5 needs a callback to count
            let mut vcb = v.clone();
            vcb.on_parse = true;
            let valid_here = crate::validator::validate(&cur, v.only_stable).is_ok();
            let rt = match round_trip(env, &cur, &vcb) {
                Ok(r) => r,
                Err(e) => {
                    out.harness_error = Some(e);
                    return out;
                }
            };
            digest = prng::mix64(digest, rt.ok as u64 + 2 * rt.calls as u64 + 8 * rt.bytes.as_ref().map(|b| prng::fnv(b)).unwrap_or(0));
            if rt.panicked {
                // panics are C02 / C05 business; no C14 verdict for this chain
                out.hit("chain_ended_by_panic");
                break;
            }
            out.hit(if rt.ok { "parse_ok" } else { "parse_err" });
            // M5: the parse callback runs exactly once per successful parse and never on a failed one
            let want_calls = if rt.ok { 1 } else { 0 };
            if rt.calls != want_calls {
                out.failure = fail("on_parse_exactly_once", format!("hop {}: parse {} but the on_parse callback ran {} time(s)", h, if rt.ok { "succeeded" } else { "failed" }, rt.calls));
                return out;
            }
            if !rt.ok {
                if !valid_here {
                    out.hit("failed_parse_of_invalid_input_checked_for_callback");
                }
                break;
            }
            let Some(a) = rt.bytes else { break };
            hop_kinds.push(v.mask());
            // each switch seen both ways, with and without the section it governs
            let in_customs = wasmsplit::customs(&cur).unwrap_or_default();
            let has = |n: &[u8]| in_customs.iter().any(|(x, _)| x == n);
            out.hit(&format!("names_{}_input_{}", if v.names { "on" } else { "off" }, if has(b"name") { "has_name" } else { "no_name" }));
            out.hit(&format!("producers_{}_input_{}", if v.producers { "on" } else { "off" }, if has(b"producers") { "has_producers" } else { "no_producers" }));
            let in_debug = in_customs.iter().any(|(x, _)| x.starts_with(b".debug"));
            out.hit(&format!("dwarf_{}_input_{}", if v.dwarf { "on" } else { "off" }, if in_debug { "has_debug" } else { "no_debug" }));

            // M5: with name generation on, the names the INPUT carries are kept where the index of the named item
            // cannot have moved: the module name (both directions), and -- walrus keeps tables, memories, globals,
            // element and data segments in input order -- no name of those namespaces is invented or changed
            // (synthetic names off).  Inputs whose name section a storage fault touched are out of scope.
            if v.names && h == 0 && case.faults.is_empty() {
                if let (Some(n_in), Some(n_out)) = (names_of(&cur), names_of(&a)) {
                    out.hit("checked_input_names_kept");
                    let mod_in = n_in.get(&(0, 0, 0)).filter(|s| !s.is_empty());
                    let mod_out = n_out.get(&(0, 0, 0)).filter(|s| !s.is_empty());
                    if mod_in != mod_out {
                        out.failure = fail("input_names_kept", format!("hop {}: the input's module name is {:?}, the output's is {:?}", h, mod_in, mod_out));
                        return out;
                    }
                    if !v.synthetic {
                        for (k, name) in n_out.iter().filter(|(k, _)| (5..=9).contains(&k.0)) {
                            if n_in.get(k) != Some(name) {
                                out.failure = fail("input_names_kept", format!("hop {}: the output names (namespace {}, index {}) `{}`; the input has {:?} there", h, k.0, k.1, name, n_in.get(k)));
                                return out;
                            }
                        }
                    }
                }
            }
            // M4: the switches that document no effect on the output (strict validation, keeping the code-offset map
            // for extension code, the instruction-location callback, and -- for a module accepted either way -- the
            // stable-features gate) leave the emitted bytes alone.  (Not with DWARF generation on, which consumes the
            // code-offset map by design.)
            if h == 0 && !v.dwarf {
                for which in 0..4u8 {
                    let mut w = vcb.clone();
                    match which {
                        0 => w.strict = !w.strict,
                        1 => w.code_transform = !w.code_transform,
                        2 => w.on_instr_loc = !w.on_instr_loc,
                        _ => w.only_stable = !w.only_stable,
                    }
                    let rt4 = match round_trip(env, &cur, &w) {
                        Ok(r) => r,
                        Err(e) => {
                            out.harness_error = Some(e);
                            return out;
                        }
                    };
                    // (the stable-features gate may legitimately REJECT the input: then there is nothing to compare)
                    let Some(b) = rt4.bytes else { continue };
                    out.hit("checked_output_neutral_switch");
                    if b != a {
                        let name = ["strict_validate", "preserve_code_transform", "on_instr_loc", "only_stable_features"][which as usize];
                        out.failure = fail("switch_without_documented_output_effect_changes_output", format!("hop {}: flipping `{}` changed the emitted bytes: {}", h, name, life::bytes_diff(&a, &b)));
                        return out;
                    }
                }
            }
            // M3: the synthetic-names switch names ANONYMOUS items only: every name the output carries with the
            // switch off is carried, unchanged, with the switch on, and nothing but the name section differs
            if v.names && h == 0 {
                let mut w = vcb.clone();
                w.synthetic = !w.synthetic;
                let rt3 = match round_trip(env, &cur, &w) {
                    Ok(r) => r,
                    Err(e) => {
                        out.harness_error = Some(e);
                        return out;
                    }
                };
                if let Some(b) = rt3.bytes {
                    let (on, off) = if v.synthetic { (&a, &b) } else { (&b, &a) };
                    if inventory_without(on, b"name") != inventory_without(off, b"name") {
                        out.failure = fail("synthetic_names_only_for_anonymous_items", format!("hop {}: flipping the synthetic-names switch changed something other than the name section", h));
                        return out;
                    }
                    if let (Some(n_on), Some(n_off)) = (names_of(on), names_of(off)) {
                        out.hit("checked_synthetic_names_keep_real_names");
                        if !n_off.is_empty() {
                            out.hit("checked_synthetic_names_keep_real_names_input_has_names");
                        }
                        for (k, name) in &n_off {
                            // (an EMPTY name is walrus's documented notion of "anonymous" for locals: tools write
                            // empty names for unnamed locals, and with the switch on such an entry is ignored)
                            if name.is_empty() {
                                continue;
                            }
                            if n_on.get(k) != Some(name) {
                                out.failure = fail(
                                    "synthetic_names_only_for_anonymous_items",
                                    format!("hop {}: with synthetic names off the output names (namespace {}, index {}, sub-index {}) `{}`; with the switch on it is {:?}", h, k.0, k.1, k.2, name, n_on.get(k)),
                                );
                                return out;
                            }
                        }
                    }
                }
            }
            // M1 / M2: flipping the name (producers) switch removes exactly that section and nothing else
            for (flag, sec_name, oracle) in [(0u8, &b"name"[..], "name_switch_removes_exactly_name"), (1u8, &b"producers"[..], "producers_switch_removes_exactly_producers")] {
                let mut w = vcb.clone();
                if flag == 0 {
                    w.names = !w.names;
                } else {
                    w.producers = !w.producers;
                }
                let rt2 = match round_trip(env, &cur, &w) {
                    Ok(r) => r,
                    Err(e) => {
                        out.harness_error = Some(e);
                        return out;
                    }
                };
                let Some(b) = rt2.bytes else { continue };
                let (on, off) = if (flag == 0 && v.names) || (flag == 1 && v.producers) { (&a, &b) } else { (&b, &a) };
                let on_wo = inventory_without(on, sec_name);
                let off_all = wasmsplit::inventory(off);
                if on_wo.is_none() || off_all.is_none() {
                    out.harness_error = Some("output not splittable".into());
                    return out;
                }
                if on_wo != off_all {
                    let (x, y) = (on_wo.unwrap(), off_all.unwrap());
                    let pos = x.iter().zip(y.iter()).position(|(p, q)| p != q).unwrap_or(x.len().min(y.len()));
                    let describe = |v: &Vec<(u8, Vec<u8>, Vec<u8>)>| v.iter().map(|(id, n, b)| format!("{}{}:{}B", id, if n.is_empty() { String::new() } else { format!("({})", String::from_utf8_lossy(n)) }, b.len())).collect::<Vec<_>>().join(" ");
                    out.failure = fail(
                        oracle,
                        format!(
                            "hop {}: with the switch off the output is not the switch-on output minus its `{}` section: first difference at section #{}; on-minus: [{}] off: [{}]",
                            h,
                            String::from_utf8_lossy(sec_name),
                            pos,
                            describe(&x),
                            describe(&y)
                        ),
                    );
                    return out;
                }
                // and the switch-off output really has no such section
                if wasmsplit::customs(off).unwrap_or_default().iter().any(|(n, _)| n == sec_name) {
                    out.failure = fail(oracle, format!("hop {}: the `{}` section is present although its switch is off", h, String::from_utf8_lossy(sec_name)));
                    return out;
                }
            }

            // M3: DWARF sections are carried only when DWARF generation is on
            if !v.dwarf {
                if let Some(n) = wasmsplit::customs(&a).unwrap_or_default().iter().find(|(n, _)| n.starts_with(b".debug")) {
                    out.failure = fail("dwarf_only_when_enabled", format!("hop {}: DWARF generation is off but the output has a `{}` section", h, String::from_utf8_lossy(&n.0)));
                    return out;
                }
                if in_debug {
                    out.hit("debug_sections_dropped_with_dwarf_off");
                }
            }

            if v.dwarf && h == 0 && case.input.source.ends_with(inputs::DWARF_TAG) && case.faults.is_empty() {
                let names: Vec<Vec<u8>> = wasmsplit::customs(&a).unwrap_or_default().into_iter().map(|(n, _)| n).collect();
                out.hit("dwarf_on_input_has_wellformed_dwarf");
                if !names.iter().any(|n| n == b".debug_info") {
                    out.failure = fail("dwarf_carried_when_enabled", format!("hop {}: DWARF generation is on and the input has well-formed DWARF, but the output has no `.debug_info` section (custom sections: {:?})", h, names.iter().map(|n| String::from_utf8_lossy(n).into_owned()).collect::<Vec<_>>()));
                    return out;
                }
            }

            // M4: producers content
            if v.producers {
                let inp = read_producers(&cur);
                let base: Option<Producers> = match inp {
                    None => Some(vec![]),
                    Some(Ok(p)) if well_formed(&p) => Some(p),
                    _ => None, // ill-formed input producers: out of scope
                };
                if let Some(base) = base {
                    match read_producers(&a) {
                        Some(Ok(got)) => {
                            let want = expected_producers(&base);
                            let got_n = observed_producers(&got);
                            let walrus_entries = got.iter().filter(|f| f.0 == "processed-by").flat_map(|f| f.1.iter()).filter(|v| v.0 == "walrus").count();
                            if walrus_entries != 1 {
                                out.failure = fail("producers_walrus_exactly_once", format!("hop {}: processed-by names walrus {} times", h, walrus_entries));
                                return out;
                            }
                            if want != got_n {
                                out.failure = fail("producers_fields_preserved", format!("hop {}: expected producers {:?}, output has {:?}", h, want, got_n));
                                return out;
                            }
                            out.hit("producers_model_checked");
                            if base.iter().any(|f| f.0 == "processed-by" && f.1.iter().any(|v| v.0 == "walrus")) {
                                out.hit("producers_prior_walrus_entry_replaced");
                            }
                        }
                        other => {
                            out.failure = fail("producers_fields_preserved", format!("hop {}: producers generation is on but the output's producers section is {:?}", h, other.map(|r| r.map(|_| ()))));
                            return out;
                        }
                    }
                } else {
                    out.hit("producers_input_ill_formed_skipped");
                }
            }
            cur = a;
        }
        out.add(&format!("hops_{}", hop_kinds.len()), 1);
        out.digest = digest;
        if !hop_kinds.is_empty() {
            out.distinct_key = prng::mix64(prng::fnv(&input), prng::fnv(format!("{:?}", hop_kinds).as_bytes())) | 1;
        }
        out.sample = Some(json!({ "input": case.input.source.chars().take(100).collect::<String>(), "vectors": hops.iter().map(|c| c.mask()).collect::<Vec<_>>(), "faults": case.faults.len(), "hops_completed": hop_kinds.len() }));
        out
    }

    fn shrink(&self, case: &Value) -> Vec<Value> {
        let Ok(c) = serde_json::from_value::<Case>(case.clone()) else { return vec![] };
        let mut v: Vec<Case> = Vec::new();
        for i in 0..c.chain.len() {
            let mut d = c.clone();
            d.chain.truncate(i);
            v.push(d);
        }
        for i in 0..c.faults.len() {
            let mut d = c.clone();
            d.faults.remove(i);
            v.push(d);
        }
        let m = c.cfg.mask();
        for bit in 0..9u32 {
            if m & (1 << bit) != 0 {
                let mut d = c.clone();
                d.cfg = CfgBits::from_mask(m & !(1 << bit));
                v.push(d);
            }
        }
        let bytes = inputs::bytes_of(&c.input);
        if c.faults.is_empty() && !c.cfg.dwarf {
            if let Some(secs) = wasmsplit::split(&bytes) {
                for s in secs.iter().rev() {
                    let mut b = bytes[..s.range.start].to_vec();
                    b.extend_from_slice(&bytes[s.range.end..]);
                    let mut d = c.clone();
                    d.input = inputs::input_ref("shrunk", &b);
                    v.push(d);
                }
            }
        }
        v.into_iter().map(|d| serde_json::to_value(d).unwrap()).collect()
    }

    fn rule(&self) -> String {
        format!(
            "first {} cases: ALL 512 switch vectors x {} fixed inputs (with/without name and producers sections, with a prior walrus entry); then (input, vector, chain of 0-5 further round trips under re-drawn vectors, optional storage faults to make the parse fail); per hop three parse+emit executions (the vector, names flipped, producers flipped); \
             non-trivial = at least one hop parsed and emitted; distinct = distinct (input digest, sequence of switch vectors)",
            512 * EXH_INPUTS,
            EXH_INPUTS
        )
    }
    fn assumptions(&self) -> Vec<String> {
        vec![
            "DWARF switch: with generation off no .debug* section may appear; with it on, presence is asserted only for synthesised well-formed DWARF (emission of arbitrary DWARF is documented as experimental)".into(),
            "producers sections with duplicate field names are treated as ill-formed input and excluded; walrus's own version string is not compared".into(),
            "the callback clause is checked on the serial build with a callback that never fails itself".into(),
        ]
    }
    fn components(&self) -> Value {
        json!({ "real": ["walrus (serial build): ModuleConfig switches, parse, emit_wasm", "wasmparser::ProducersSectionReader (independent reader)", "section splitter"], "stub": ["getrandom (seeded entropy)"] })
    }
}
