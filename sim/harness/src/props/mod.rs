pub mod c09;

use crate::framework::Prop;

pub fn by_id(id: &str) -> Option<&'static dyn Prop> {
    match id {
        "C09" => Some(&c09::C09),
        _ => None,
    }
}

pub const ALL: &[&str] = &["C09"];
