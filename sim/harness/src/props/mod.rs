pub mod c02;
pub mod c05;
pub mod c08;
pub mod c09;
pub mod c12;
pub mod c14;
pub mod c17;

use crate::framework::Prop;

pub fn by_id(id: &str) -> Option<&'static dyn Prop> {
    match id {
        "C02" => Some(&c02::C02),
        "C05" => Some(&c05::C05),
        "C08" => Some(&c08::C08),
        "C09" => Some(&c09::C09),
        "C12" => Some(&c12::C12),
        "C14" => Some(&c14::C14),
        "C17" => Some(&c17::C17),
        _ => None,
    }
}

pub const ALL: &[&str] = &["C02", "C05", "C08", "C09", "C12", "C14", "C17"];
