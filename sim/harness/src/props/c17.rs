//! C17 — Identifiers are stable, never reused, and deletion is isolated.
//!
//! Seeded (and, for a small alphabet, exhaustive) operation histories on every
//! public collection against a map/vector reference model, with "use of a dead
//! id" as the injected fault: it must surface as a panic / None and leave the
//! collection in agreement with the model.

use crate::framework::{Env, Failure, Outcome, Prop, Tier};
use crate::prng::{self, Rng};
use crate::types::*;
use serde::{Deserialize, Serialize};
use serde_json::{json, Value};

pub struct C17;

#[derive(Serialize, Deserialize, Clone, Debug)]
pub struct Case {
    pub n_modules: u8,
    pub burn: u32,
    pub ops: Vec<COp>,
    #[serde(default)]
    pub exhaustive: bool,
}

/// The small alphabet walked exhaustively (all sequences up to length 5).
fn alphabet() -> Vec<COp> {
    use CollKind::*;
    vec![
        COp::Add { m: 0, coll: Types, arg: 0 },
        COp::Add { m: 0, coll: Types, arg: 2 },
        COp::Delete { m: 0, coll: Types, nth: 0 },
        COp::Delete { m: 0, coll: Types, nth: 1 },
        COp::BuilderNew { m: 0, sig: 2 },
        COp::Find { m: 0, coll: Types, arg: 2 },
        COp::Add { m: 0, coll: Funcs, arg: 7 },
        COp::Delete { m: 0, coll: Funcs, nth: 0 },
        COp::Get { m: 0, coll: Types, nth: 0 },
    ]
}

pub const EXHAUSTIVE_MAX_LEN: u32 = 5;

pub fn exhaustive_count() -> u64 {
    let a = alphabet().len() as u64;
    (1..=EXHAUSTIVE_MAX_LEN).map(|l| a.pow(l)).sum()
}

fn exhaustive_case(mut index: u64) -> Case {
    let alpha = alphabet();
    let a = alpha.len() as u64;
    let mut len = 1;
    while index >= a.pow(len) {
        index -= a.pow(len);
        len += 1;
    }
    let mut ops = Vec::new();
    for _ in 0..len {
        ops.push(alpha[(index % a) as usize].clone());
        index /= a;
    }
    Case { n_modules: 1, burn: 0, ops, exhaustive: true }
}

fn draw_coll(rng: &mut Rng) -> CollKind {
    match rng.below(20) {
        0..=5 => CollKind::Types,
        6..=8 => CollKind::Funcs,
        9 => CollKind::Globals,
        10 => CollKind::Memories,
        11 => CollKind::Tables,
        12 => CollKind::Data,
        13 => CollKind::Elements,
        14..=15 => CollKind::Exports,
        16..=17 => CollKind::Imports,
        18 => CollKind::Locals,
        _ => CollKind::Customs,
    }
}

impl Prop for C17 {
    fn id(&self) -> &'static str {
        "C17"
    }
    fn level(&self) -> &'static str {
        "exploration"
    }
    fn engine(&self) -> &'static str {
        "lifecycle-simulator"
    }
    fn runs(&self, tier: Tier) -> u64 {
        match tier {
            Tier::Quick => exhaustive_count() + 150_000,
            Tier::Thorough => exhaustive_count() + 12_000_000,
        }
    }

    fn plan(&self, env: &Env, index: u64, rng: &mut Rng) -> Value {
        if index < exhaustive_count() {
            return serde_json::to_value(exhaustive_case(index)).unwrap();
        }
        let n_modules = match rng.below(4) {
            0 => 2,
            1 => 3,
            _ => 1,
        };
        let max = if env.tier == Tier::Quick { 40 } else { 60 };
        let n = if rng.chance(1, 2) { rng.range(1, 12) } else { rng.range(1, max) };
        // swarm: some runs concentrate on one collection
        let focus = if rng.chance(1, 3) { Some(draw_coll(rng)) } else { None };
        let mut ops = Vec::new();
        for _ in 0..n {
            let m = rng.below(n_modules as u64) as u8;
            let coll = match focus {
                Some(c) if rng.chance(3, 4) => c,
                _ => draw_coll(rng),
            };
            ops.push(match rng.below(20) {
                0..=8 => COp::Add { m, coll, arg: rng.below(60) as u32 },
                9..=12 => COp::Delete { m, coll, nth: rng.below(12) as u32 },
                13..=14 => COp::Get { m, coll, nth: rng.below(12) as u32 },
                15..=16 => COp::Find { m, coll, arg: rng.below(30) as u32 },
                17 => COp::BuilderNew { m, sig: rng.below(6) as u32 },
                18 => {
                    if n_modules > 1 && rng.bool() {
                        COp::Foreign { from: m, to: (m + 1) % n_modules, coll, nth: rng.below(12) as u32 }
                    } else {
                        COp::Burn { n: *rng.pick(&[1u32, 10, 70000]) }
                    }
                }
                _ => COp::Iter { m, coll },
            });
        }
        let case = Case { n_modules, burn: *rng.pick(&[0u32, 0, 5, 65536]), ops, exhaustive: false };
        serde_json::to_value(case).unwrap()
    }

    fn execute(&self, _env: &Env, case_v: &Value) -> Outcome {
        let mut out = Outcome::default();
        let case: Case = match serde_json::from_value(case_v.clone()) {
            Ok(c) => c,
            Err(e) => {
                out.harness_error = Some(format!("bad case: {}", e));
                return out;
            }
        };
        let (ops, nm, burn) = (case.ops.clone(), case.n_modules, case.burn);
        let rep = match crate::simrt::run_plain(Some(7), 8 << 20, move || crate::ser::coll::run(&ops, nm, burn)) {
            Ok(r) => r,
            Err(e) => {
                out.harness_error = Some(format!("collection run died: {}", e));
                return out;
            }
        };
        for (k, v) in &rep.counters {
            out.add(k, *v);
        }
        if case.exhaustive {
            out.hit("exhaustive_small_alphabet_sequences");
        }
        for h in &rep.state_hashes {
            out.measures.push(("model_states", *h));
        }
        out.digest = prng::fnv(serde_json::to_string(&rep).unwrap().as_bytes());
        if let Some((step, oracle, detail)) = &rep.failure {
            out.failure = Some(Failure { oracle: oracle.clone(), detail: format!("step {} ({:?}): {}", step, case.ops.get(*step as usize), detail), case: case_v.clone() });
        }
        // non-trivial: the history both added and deleted something
        let adds = case.ops.iter().any(|o| matches!(o, COp::Add { .. } | COp::BuilderNew { .. }));
        let dels = case.ops.iter().any(|o| matches!(o, COp::Delete { .. } | COp::Find { .. }));
        if adds && dels {
            out.distinct_key = prng::fnv(serde_json::to_string(&case.ops).unwrap().as_bytes()) | 1;
        }
        out.sample = Some(json!({ "n_modules": case.n_modules, "burn": case.burn, "ops": case.ops.iter().take(12).collect::<Vec<_>>(), "len": case.ops.len() }));
        out
    }

    fn shrink(&self, case: &Value) -> Vec<Value> {
        let Ok(c) = serde_json::from_value::<Case>(case.clone()) else { return vec![] };
        let mut v = Vec::new();
        // drop a suffix first (the failing step is where the run stopped), then single steps
        for cut in [c.ops.len() / 2, c.ops.len().saturating_sub(1)] {
            if cut > 0 && cut < c.ops.len() {
                let mut d = c.clone();
                d.ops.truncate(cut);
                v.push(d);
            }
        }
        for i in 0..c.ops.len() {
            let mut d = c.clone();
            d.ops.remove(i);
            v.push(d);
        }
        if c.n_modules > 1 {
            let mut d = c.clone();
            d.n_modules = 1;
            v.push(d);
        }
        if c.burn != 0 {
            let mut d = c.clone();
            d.burn = 0;
            v.push(d);
        }
        v.into_iter().map(|d| serde_json::to_value(d).unwrap()).collect()
    }

    fn rule(&self) -> String {
        format!(
            "first {} cases: ALL sequences of length 1..{} over a 9-operation alphabet on types/functions (exhaustive for that bound); then seeded histories of 1-60 operations (add / delete incl. through dead ids / get through dead ids / ids of another module / finders incl. shared names / FunctionBuilder::new / arena burn) over 11 collections of 1-3 modules, invariants evaluated after every step; \
             non-trivial = the history contains at least one add and one delete/finder; distinct = distinct operation sequences (model states reached are counted separately as distinct_model_states)",
            exhaustive_count(),
            EXHAUSTIVE_MAX_LEN
        )
    }
    fn assumptions(&self) -> Vec<String> {
        vec![
            "single-threaded histories: the collection API is &mut-owned, there is nothing to interleave".into(),
            "identity of an item is observed through a unique fingerprint stored in the item (name / initial size / signature)".into(),
            "history length <= 60, at most three modules per run; nothing is emitted in this check (dangling references are allowed)".into(),
        ]
    }
    fn components(&self) -> Value {
        json!({ "real": ["walrus (serial build): ModuleTypes, ModuleFunctions, ModuleGlobals, ModuleMemories, ModuleTables, ModuleData, ModuleElements, ModuleExports, ModuleImports, ModuleLocals, ModuleCustomSections, FunctionBuilder", "id-arena"], "stub": [] })
    }
}
