//! C02 — Emitted binaries always validate and emission never panics.
//!
//! The history dimension of the property: a Module carries tombstones,
//! back-links and id maps from everything done to it before the emit.  Seeded
//! histories of GC, re-parse and well-formed API edits; after every emit the
//! output must exist (no unwind) and the stand-alone validator must accept it.

use crate::framework::{Env, Failure, Outcome, Prop, Tier};
use crate::inputs::{self, Mix};
use crate::life;
use crate::prng::{self, Rng};
use crate::types::*;
use crate::validator;
use serde::{Deserialize, Serialize};
use serde_json::{json, Value};

pub struct C02;

#[derive(Serialize, Deserialize, Clone, Debug)]
pub struct Case {
    pub input: InputRef,
    pub cfg: CfgBits,
    pub ops: Vec<Op>,
    pub ambient: Ambient,
    /// run the history on a thread with std's default 2 MiB stack (deep-nesting inputs: an overflow
    /// inside emit / GC kills the worker and is attributed to this case by the driver)
    #[serde(default)]
    pub small_stack: bool,
}

fn draw_name(rng: &mut Rng) -> Option<String> {
    match rng.below(5) {
        0 => None,
        1 => Some(String::new()),
        2 => Some("ünï çødé \u{1F980}".to_string()),
        3 => Some("dup".to_string()),
        _ => Some(format!("n{}", rng.below(1000))),
    }
}

fn draw_kind(rng: &mut Rng) -> BodyKind {
    match rng.below(5) {
        0 => BodyKind::Arith,
        1 => BodyKind::Control,
        2 => BodyKind::Calls,
        3 => BodyKind::Entities,
        _ => BodyKind::Positional,
    }
}

pub fn draw_edit(rng: &mut Rng) -> Edit {
    match rng.below(35) {
        34 => Edit::AddRootSection { pick: rng.u32() },
        32 | 33 => Edit::AddImportLate { kind: rng.below(4) as u8, export: rng.chance(3, 4), flavour: rng.below(4) as u8 },
        30 => Edit::InsertViaBlockMut { func: rng.u32(), seq: rng.u32(), pos: rng.u32(), n: 1 + rng.below(8) as u32 },
        31 => Edit::VisitMutPass { func: rng.u32(), what: rng.below(2) as u8 },
        0..=1 => Edit::ExportFunc { pick: rng.u32(), name: "xf".into() },
        2 => Edit::ExportGlobal { pick: rng.u32(), name: "xg".into() },
        3 => Edit::ExportMemory { pick: rng.u32(), name: "xm".into() },
        4 => Edit::ExportTable { pick: rng.u32(), name: "xt".into() },
        5..=6 => Edit::DeleteExport { pick: rng.u32() },
        7..=11 => Edit::BuildFunc { seed: rng.u64(), sig: rng.u32(), kind: draw_kind(rng), export: rng.chance(2, 3), in_elem: rng.chance(1, 4), in_global: rng.chance(1, 6) },
        12 => Edit::AddGlobal { ty: rng.below(6) as u8, mutable: rng.bool(), export: rng.bool() },
        13 => Edit::AddMemory { shared: rng.chance(1, 4), mem64: rng.chance(1, 4), export: rng.bool() },
        14 => Edit::AddTable { externref: rng.bool(), export: rng.bool() },
        15..=16 => Edit::AddData { passive: rng.bool(), len: rng.below(20) as u32, use_in_func: rng.bool() },
        17..=18 => Edit::AddElem { kind: rng.below(7) as u8, n: rng.below(5) as u32 },
        19..=20 => Edit::ReplaceImported { pick: rng.u32(), seed: rng.u64(), kind: draw_kind(rng) },
        21 => Edit::ReplaceExported { pick: rng.u32(), seed: rng.u64(), kind: draw_kind(rng) },
        22 => Edit::SetStart { seed: rng.u64() },
        23 => Edit::ClearStart,
        24 => Edit::InsertNeutral { func: rng.u32(), seq: rng.u32(), pos: rng.u32(), what: rng.below(4) as u8 },
        25 => Edit::InsertTerminator { func: rng.u32(), seq: rng.u32(), pos: rng.u32(), what: rng.below(2) as u8 },
        26 => Edit::RenameFunc { pick: rng.u32(), name: draw_name(rng) },
        27 => match rng.below(2) {
            0 => Edit::RenameModule { name: draw_name(rng) },
            _ => Edit::RenameLocal { pick: rng.u32(), name: draw_name(rng) },
        },
        28 => Edit::RenameOther { which: rng.below(6) as u8, pick: rng.u32(), name: draw_name(rng) },
        _ => Edit::Producers { field: rng.below(3) as u8, name: rng.pick(&["walrus", "rustc", "dst"]).to_string(), version: "9.9".into() },
    }
}

fn draw_cfg(rng: &mut Rng, has_debug: bool) -> CfgBits {
    let mut c = CfgBits::from_mask(rng.below(512) as u32);
    c.only_stable = false;
    c.probe = false;
    // DWARF generation on only where it must be a no-op (no debug sections in the input)
    if has_debug {
        c.dwarf = false;
    }
    c
}

impl Prop for C02 {
    fn id(&self) -> &'static str {
        "C02"
    }
    fn level(&self) -> &'static str {
        "exploration"
    }
    fn engine(&self) -> &'static str {
        "lifecycle-simulator"
    }
    fn runs(&self, tier: Tier) -> u64 {
        match tier {
            Tier::Quick => 16_000,
            Tier::Thorough => 1_600_000,
        }
    }

    fn crash_is_violation(&self) -> bool {
        true
    }

    fn plan(&self, env: &Env, index: u64, rng: &mut Rng) -> Value {
        if index % 211 == 7 {
            // deeply nested but VALID control flow: emission (and GC) must not recurse on the nesting depth
            let depth = *rng.pick(&[5_000u32, 20_000, 30_000, 40_000, 43_000]);
            let kind = rng.below(5) as u8;
            let b = crate::faults::nest_bomb(depth, kind);
            let mut ops = vec![];
            if rng.bool() {
                ops.push(Op::Gc);
            }
            ops.push(Op::Emit);
            if rng.bool() {
                ops.push(Op::Query);
                ops.push(Op::Emit);
            }
            let case = Case {
                input: inputs::input_ref(&format!("nest-bomb:{}:{}", depth, kind), &b),
                cfg: CfgBits::walrus_default(),
                ops,
                ambient: Ambient { entropy: rng.u64(), arena_burn: 0, heap_pad: 0 },
                small_stack: true,
            };
            return serde_json::to_value(case).unwrap();
        }
        let picked = inputs::pick(env, rng, &Mix { fixture: 40, dodrio: if env.tier == Tier::Quick { 0 } else { 1 }, generated: 60, max_funcs: 24, valid_only: true });
        let picked = inputs::maybe_attach_dwarf(picked, rng, 1, 6);
        let (has, synth) = inputs::debug_status(&picked.iref.source, &picked.bytes);
        // DWARF generation on only together with well-formed (harness-synthesised) debug sections, or where it must be a no-op
        let has_debug = has && !synth;
        let mut cfg = draw_cfg(rng, has_debug);
        if synth && rng.chance(3, 4) {
            cfg.dwarf = true;
        }
        let max_len: u64 = if env.tier == Tier::Quick { 8 } else { 12 };
        let n = if rng.chance(3, 4) { rng.range(0, 4) } else { rng.range(0, max_len) };
        let mut ops = Vec::new();
        for _ in 0..n {
            ops.push(match rng.below(20) {
                0..=3 => Op::Emit,
                4..=6 => Op::Gc,
                7 => {
                    // walrus's own DWARF output is not claimed to be well-formed input: no DWARF generation after a re-parse of it
                    let mut c = draw_cfg(rng, has_debug);
                    if synth {
                        c.dwarf = false;
                    }
                    Op::Reparse { cfg: c }
                }
                8 => Op::CustomAddRaw { name: "added".into(), data: rng.bytes(5) },
                9 => Op::Query,
                _ => Op::Edit(draw_edit(rng)),
            });
        }
        if rng.bool() {
            ops.push(Op::Gc);
        }
        ops.push(Op::Emit);
        let case = Case { input: picked.iref, cfg, ops, ambient: Ambient { entropy: rng.u64(), arena_burn: *rng.pick(&[0u32, 0, 3]), heap_pad: 0 }, small_stack: false };
        serde_json::to_value(case).unwrap()
    }

    fn execute(&self, env: &Env, case_v: &Value) -> Outcome {
        let mut out = Outcome::default();
        let case: Case = match serde_json::from_value(case_v.clone()) {
            Ok(c) => c,
            Err(e) => {
                out.harness_error = Some(format!("bad case: {}", e));
                return out;
            }
        };
        let input = inputs::bytes_of(&case.input);
        if case.small_stack {
            out.hit("deep_nesting_on_2mib_stack");
        }
        let ran = life::run_ser_stack(env, &input, &case.cfg, &case.ops, &case.ambient, prng::fnv(&input), if case.small_stack { 2 << 20 } else { 16 << 20 });
        let Some(t) = ran.transcript else {
            out.harness_error = Some(format!("run did not complete: {:?}", ran.abort));
            return out;
        };
        out.digest = t.digest();
        let fail = |oracle: &str, detail: String| Some(Failure { oracle: oracle.to_string(), detail, case: case_v.clone() });
        let mut kinds: Vec<&'static str> = Vec::new();
        let mut edits_applied = 0u32;
        let mut gcs = 0u32;
        let mut emits = 0u32;
        let history_before = |kinds: &[&'static str]| kinds.join(",");
        'steps: for (i, step) in t.steps.iter().enumerate() {
            let op = if i == 0 { None } else { Some(&case.ops[i - 1]) };
            if let Some(o) = op {
                kinds.push(o.kind());
                out.hit(&format!("op:{}", o.kind()));
            }
            let check = |bytes: &[u8], what: &str, out: &mut Outcome| -> Option<Failure> {
                match validator::validate(bytes, false) {
                    Ok(()) => None,
                    Err(e) => {
                        let _ = out;
                        fail("emit_validates", format!("step {} ({}): the emitted module is rejected by the validator: {} [history: parse,{}]", i, what, e, kinds.join(",")))
                    }
                }
            };
            match step {
                StepOut::Parsed { ok: true, .. } => {}
                StepOut::Parsed { ok: false, .. } => {
                    out.hit("inputs_rejected_by_walrus");
                    break 'steps;
                }
                StepOut::Skipped => break 'steps,
                StepOut::Panic { msg } => {
                    let opname = op.map(|o| o.kind()).unwrap_or("parse");
                    match op {
                        Some(Op::Emit) | Some(Op::EmitFile { .. }) | Some(Op::Gc) | Some(Op::Reparse { .. }) => {
                            out.failure = fail(
                                "emit_no_panic",
                                format!("step {} ({}) panicked: {} [history: parse,{}]", i, opname, life::scrub(msg).lines().next().unwrap_or(""), history_before(&kinds)),
                            );
                        }
                        None => {
                            // parse panics are C05's business
                            out.hit("parse_panicked");
                        }
                        _ => {
                            out.harness_error = Some(format!("edit step {} ({:?}) panicked: {}", i, op, life::scrub(msg)));
                        }
                    }
                    break 'steps;
                }
                StepOut::Emit { bytes } => {
                    emits += 1;
                    if edits_applied > 0 {
                        out.hit("emit_after_edits");
                    }
                    if gcs > 0 {
                        out.hit("emit_after_gc");
                    }
                    if edits_applied > 0 && gcs > 0 {
                        out.hit("emit_after_edits_and_gc");
                    }
                    if let Some(f) = check(bytes, "emit", &mut out) {
                        out.failure = Some(f);
                        break 'steps;
                    }
                }
                StepOut::Reparsed { emitted, ok, .. } => {
                    emits += 1;
                    if let Some(f) = check(emitted, "emit for re-parse", &mut out) {
                        out.failure = Some(f);
                        break 'steps;
                    }
                    if !*ok {
                        out.hit("reparse_rejected_valid_output");
                        break 'steps;
                    }
                    edits_applied = 0;
                    gcs = 0;
                }
                StepOut::EmitFile { file: Some(f), .. } => {
                    emits += 1;
                    if let Some(fl) = check(f, "file emit", &mut out) {
                        out.failure = Some(fl);
                        break 'steps;
                    }
                }
                StepOut::EmitFile { .. } => {}
                StepOut::Gc => gcs += 1,
                StepOut::Edit { applied, .. } => {
                    if *applied {
                        edits_applied += 1;
                    } else {
                        out.hit("edit_precondition_not_met");
                    }
                }
                StepOut::Query { .. } | StepOut::Custom { .. } | StepOut::Ambient => {}
            }
        }
        if emits > 0 {
            out.distinct_key = prng::mix64(prng::mix64(prng::fnv(&input), case.cfg.mask() as u64), prng::fnv(kinds.join(",").as_bytes())) | 1;
        }
        out.sample = Some(json!({
            "input": case.input.source.chars().take(120).collect::<String>(), "input_bytes": input.len(), "cfg_mask": case.cfg.mask(), "ops": kinds,
        }));
        out
    }

    fn shrink(&self, case: &Value) -> Vec<Value> {
        let Ok(c) = serde_json::from_value::<Case>(case.clone()) else { return vec![] };
        let mut v: Vec<Case> = Vec::new();
        for i in 0..c.ops.len() {
            let mut d = c.clone();
            d.ops.remove(i);
            v.push(d);
        }
        for (i, op) in c.ops.iter().enumerate() {
            let simpler = match op {
                Op::Reparse { .. } => Some(Op::Emit),
                Op::Edit(Edit::BuildFunc { seed, sig, kind, export, in_elem, in_global }) if *in_elem || *in_global || !matches!(kind, BodyKind::Arith) => Some(Op::Edit(Edit::BuildFunc {
                    seed: *seed,
                    sig: *sig,
                    kind: if *in_elem || *in_global { kind.clone() } else { BodyKind::Arith },
                    export: *export,
                    in_elem: false,
                    in_global: false,
                })),
                _ => None,
            };
            if let Some(s) = simpler {
                let mut d = c.clone();
                d.ops[i] = s;
                v.push(d);
            }
        }
        let dflt = CfgBits::walrus_default();
        if c.cfg != dflt {
            let mut d = c.clone();
            d.cfg = dflt;
            v.push(d);
        }
        let m = c.cfg.mask();
        for bit in 0..9u32 {
            if m & (1 << bit) != 0 {
                let mut d = c.clone();
                d.cfg = CfgBits::from_mask(m & !(1 << bit));
                v.push(d);
            }
        }
        let bytes = inputs::bytes_of(&c.input);
        let dwarf_on = c.cfg.dwarf || c.ops.iter().any(|o| matches!(o, Op::Reparse { cfg } if cfg.dwarf));
        if let Some(secs) = crate::wasmsplit::split(&bytes).filter(|_| !dwarf_on) {
            for s in secs.iter().rev() {
                let mut b = bytes[..s.range.start].to_vec();
                b.extend_from_slice(&bytes[s.range.end..]);
                if validator::validate(&b, false).is_ok() {
                    let mut d = c.clone();
                    d.input = inputs::input_ref("shrunk", &b);
                    v.push(d);
                }
            }
        }
        // smaller generated input
        if let Some(rest) = c.input.source.strip_prefix("gen:").filter(|_| !dwarf_on) {
            if let Ok(p) = serde_json::from_str::<crate::gen::GenParams>(rest) {
                let mut qs = Vec::new();
                if p.n_funcs > 1 {
                    let mut q = p.clone();
                    q.n_funcs = p.n_funcs / 2;
                    qs.push(q);
                }
                if p.size_mode != 0 {
                    let mut q = p.clone();
                    q.size_mode = 0;
                    qs.push(q);
                }
                for q in qs {
                    let g = crate::gen::generate(&q);
                    if validator::validate(&g.bytes, false).is_ok() {
                        let mut d = c.clone();
                        d.input = inputs::input_ref(&format!("gen:{}", serde_json::to_string(&q).unwrap()), &g.bytes);
                        v.push(d);
                    }
                }
            }
        }
        v.into_iter().map(|d| serde_json::to_value(d).unwrap()).collect()
    }

    fn rule(&self) -> String {
        "one case = (valid module, switch vector with only_stable off, history of 1-13 operations over emit / GC / re-parse / query / add custom / 22 kinds of well-formed API edit (exports, FunctionBuilder bodies incl. positional insertion and dangling sequences, globals, memories, tables, data, elements, replace_imported_func, replace_exported_func, start, type-neutral insertions into parsed bodies, renames, producers)); \
         non-trivial = at least one emit was validated; distinct = distinct (input digest, switch vector, operation-kind sequence)"
            .to_string()
    }
    fn assumptions(&self) -> Vec<String> {
        vec![
            "edits come from a fixed vocabulary of contract-preserving operations; deletions of referenced entities are never generated (GC is the only bulk deleter)".into(),
            "only validity of the output is judged: an output that validates but means something else passes".into(),
            "a panic inside an edit step (not emit/GC/re-parse) is reported as a harness error for triage, not as a violation".into(),
        ]
    }
    fn components(&self) -> Value {
        json!({ "real": ["walrus (serial build): parse, passes::gc, FunctionBuilder, module collections, emit_wasm", "wasmparser validator (independent instance)"], "stub": ["getrandom (seeded entropy)"] })
    }
}
