//! C12 — Unknown custom sections survive untouched.
//!
//! Lifecycle simulator: histories of emit / emit-to-file with I/O faults / GC /
//! re-parse under another switch vector / add / delete / remove / get, against
//! an ordered-list reference model.  Conservation, exactly-once and order are
//! checked after every emit; queries step by step.

use crate::framework::{Env, Failure, Outcome, Prop, Tier};
use crate::inputs::{self, Mix};
use crate::life;
use crate::prng::{self, Rng};
use crate::types::*;
use crate::wasmsplit;
use serde::{Deserialize, Serialize};
use serde_json::{json, Value};

pub struct C12;

#[derive(Serialize, Deserialize, Clone, Debug)]
pub struct Case {
    pub input: InputRef,
    pub cfg: CfgBits,
    pub ops: Vec<Op>,
    pub ambient: Ambient,
}

#[derive(Clone, Debug, PartialEq, Eq)]
struct Slot {
    name: String,
    data: Vec<u8>,
    raw: bool,
    live: bool,
}

/// The reference model: an ordered list, nothing else.
struct Model {
    slots: Vec<Slot>,
}

impl Model {
    fn from_bytes(b: &[u8]) -> Option<Model> {
        let cs = wasmsplit::customs(b)?;
        let slots = cs
            .into_iter()
            .filter(|(n, _)| !wasmsplit::interpreted_name(n))
            .map(|(n, d)| Slot { name: String::from_utf8_lossy(&n).into_owned(), data: d, raw: true, live: true })
            .collect();
        Some(Model { slots })
    }
    fn live(&self) -> Vec<(&str, &[u8])> {
        self.slots.iter().filter(|s| s.live).map(|s| (s.name.as_str(), s.data.as_slice())).collect()
    }
    /// what a re-parse of our own output yields: the live entries, all raw
    fn compact(&mut self) {
        self.slots.retain(|s| s.live && !wasmsplit::interpreted_name(s.name.as_bytes()));
        for s in self.slots.iter_mut() {
            s.raw = true;
        }
    }
}

fn uninterpreted(out: &[u8]) -> Option<Vec<(String, Vec<u8>)>> {
    Some(
        wasmsplit::customs(out)?
            .into_iter()
            .filter(|(n, _)| !wasmsplit::interpreted_name(n))
            .map(|(n, d)| (String::from_utf8_lossy(&n).into_owned(), d))
            .collect(),
    )
}

fn describe(list: &[(String, Vec<u8>)]) -> String {
    let v: Vec<String> = list.iter().map(|(n, d)| format!("{:?}/{}B", n, d.len())).collect();
    format!("[{}]", v.join(", "))
}

fn conserved(model: &Model, out: &[u8]) -> Result<(), String> {
    let Some(got) = uninterpreted(out) else { return Err("output is not splittable into sections".into()) };
    // entries whose name walrus interprets are out of scope on both sides
    let want: Vec<(String, Vec<u8>)> = model
        .live()
        .into_iter()
        .filter(|(n, _)| !wasmsplit::interpreted_name(n.as_bytes()))
        .map(|(n, d)| (n.to_string(), d.to_vec()))
        .collect();
    if got == want {
        return Ok(());
    }
    Err(format!("expected uninterpreted custom sections {} but the output has {}", describe(&want), describe(&got)))
}

pub fn draw_ops(rng: &mut Rng, max_len: u64) -> Vec<Op> {
    let n = if rng.chance(3, 4) { rng.range(1, 4.min(max_len)) } else { rng.range(1, max_len) };
    let mut ops = Vec::new();
    for _ in 0..n {
        let op = match rng.below(20) {
            0..=5 => Op::Emit,
            6 => Op::EmitFile { target: FileTarget::Ok },
            7 => Op::EmitFile { target: rng.pick(&[FileTarget::NoSpace, FileTarget::MissingDir, FileTarget::IsDir]).clone() },
            8..=9 => Op::Gc,
            10 => {
                let mut c = CfgBits::from_mask(rng.below(512) as u32);
                c.only_stable = false;
                c.dwarf = false;
                Op::Reparse { cfg: c }
            }
            11..=12 => {
                let name = rng.pick(&["added", "foo", "", "names", "producer", "debug_info", "x.debug", "ünï", "Name"]).to_string();
                let len = crate::gen::boundary_len(rng).min(400);
                Op::CustomAddRaw { name, data: rng.bytes(len) }
            }
            13 => Op::CustomAddTyped { tag: rng.below(4) as u8, len: rng.below(40) as u32 },
            14..=15 => Op::CustomDelete { nth: rng.below(12) as u32 },
            16 => Op::CustomRemoveRaw { name: rng.pick(&["foo", "added", "", "bar", "linking", "dst.typed.0", "nope"]).to_string() },
            17 => Op::CustomGet { nth: rng.below(12) as u32 },
            _ => Op::Query,
        };
        ops.push(op);
    }
    if !ops.iter().any(|o| matches!(o, Op::Emit | Op::EmitFile { target: FileTarget::Ok } | Op::Reparse { .. })) {
        ops.push(Op::Emit);
    }
    ops
}

impl Prop for C12 {
    fn id(&self) -> &'static str {
        "C12"
    }
    fn level(&self) -> &'static str {
        "exploration"
    }
    fn engine(&self) -> &'static str {
        "lifecycle-simulator"
    }
    fn runs(&self, tier: Tier) -> u64 {
        match tier {
            Tier::Quick => 12_000,
            Tier::Thorough => 1_200_000,
        }
    }

    fn plan(&self, env: &Env, _index: u64, rng: &mut Rng) -> Value {
        let picked = inputs::pick(env, rng, &Mix { fixture: 45, dodrio: 1, generated: 54, max_funcs: 12, valid_only: true });
        let n = if rng.chance(1, 6) { 0 } else { rng.range(1, 6) as u32 };
        let bytes = inputs::splice_customs(&picked.bytes, rng, n);
        let mut cfg = CfgBits::from_mask(rng.below(512) as u32);
        cfg.only_stable = false;
        cfg.dwarf = false;
        let max_len = if env.tier == Tier::Quick { 8 } else { 12 };
        let case = Case {
            input: inputs::input_ref(&format!("{}+{}customs", picked.iref.source.chars().take(200).collect::<String>(), n), &bytes),
            cfg,
            ops: draw_ops(rng, max_len),
            ambient: Ambient { entropy: rng.u64(), arena_burn: *rng.pick(&[0u32, 0, 2, 70000]), heap_pad: 0 },
        };
        serde_json::to_value(case).unwrap()
    }

    fn execute(&self, env: &Env, case_v: &Value) -> Outcome {
        let mut out = Outcome::default();
        let case: Case = match serde_json::from_value(case_v.clone()) {
            Ok(c) => c,
            Err(e) => {
                out.harness_error = Some(format!("bad case: {}", e));
                return out;
            }
        };
        let input = inputs::bytes_of(&case.input);
        let Some(mut model) = Model::from_bytes(&input) else {
            out.harness_error = Some("input is not splittable".into());
            return out;
        };
        let ran = life::run_ser(env, &input, &case.cfg, &case.ops, &case.ambient, prng::fnv(&input));
        let Some(t) = ran.transcript else {
            out.harness_error = Some(format!("run did not complete: {:?}", ran.abort));
            return out;
        };
        out.digest = t.digest();
        let fail = |oracle: &str, detail: String| Some(Failure { oracle: oracle.to_string(), detail, case: case_v.clone() });
        let initial = model.live().len();
        let mut emits = 0u32;
        let mut gc_before_emit = false;
        let mut failed_write_before_emit = false;
        let mut kinds: Vec<&'static str> = Vec::new();

        'steps: for (i, step) in t.steps.iter().enumerate() {
            let op = if i == 0 { None } else { Some(&case.ops[i - 1]) };
            if let Some(o) = op {
                kinds.push(o.kind());
            }
            match (op, step) {
                (None, StepOut::Parsed { ok: true, .. }) => {}
                (None, StepOut::Parsed { ok: false, err, .. }) => {
                    // the input was validated by the independent validator: a reject is C05's business, not ours
                    out.hit("inputs_rejected_by_walrus");
                    let _ = err;
                    break 'steps;
                }
                (_, StepOut::Panic { msg }) => {
                    // panics are C02's business; the history ends here without a C12 verdict
                    out.hit("history_ended_by_panic");
                    let _ = msg;
                    break 'steps;
                }
                (_, StepOut::Skipped) => break 'steps,
                (Some(Op::Emit), StepOut::Emit { bytes }) => {
                    emits += 1;
                    if emits >= 2 {
                        out.hit("emit_2nd_or_later_on_same_value");
                    }
                    if gc_before_emit {
                        out.hit("emit_after_gc");
                    }
                    if failed_write_before_emit {
                        out.hit("emit_after_failed_file_write");
                    }
                    if let Err(e) = conserved(&model, bytes) {
                        out.failure = fail("customs_conserved_on_emit", format!("step {} (emit #{} on this value): {}", i, emits, e));
                        break 'steps;
                    }
                }
                (Some(Op::EmitFile { target }), StepOut::EmitFile { ok, file, .. }) => {
                    out.hit(&format!("fault:{}", Op::EmitFile { target: target.clone() }.kind()));
                    if *ok {
                        emits += 1;
                        if let Some(f) = file {
                            if let Err(e) = conserved(&model, f) {
                                out.failure = fail("customs_conserved_on_emit", format!("step {} (file emit): {}", i, e));
                                break 'steps;
                            }
                        }
                    } else {
                        // emit_wasm ran before the write failed: it counts as an emit on this value
                        emits += 1;
                        failed_write_before_emit = true;
                    }
                }
                (Some(Op::Gc), StepOut::Gc) => {
                    gc_before_emit = true;
                }
                (Some(Op::Reparse { .. }), StepOut::Reparsed { emitted, ok, .. }) => {
                    out.hit("reparse");
                    emits += 1;
                    if let Err(e) = conserved(&model, emitted) {
                        out.failure = fail("customs_conserved_on_emit", format!("step {} (emit for re-parse, emit #{} on this value): {}", i, emits, e));
                        break 'steps;
                    }
                    if !*ok {
                        out.hit("reparse_rejected");
                        break 'steps;
                    }
                    model.compact();
                    emits = 0;
                    gc_before_emit = false;
                    failed_write_before_emit = false;
                }
                (Some(Op::Query), StepOut::Query { customs, .. }) => {
                    let want: Vec<(String, bool, Vec<u8>)> = model.slots.iter().filter(|s| s.live).map(|s| (s.name.clone(), s.raw, s.data.clone())).collect();
                    let got: Vec<(String, bool, Vec<u8>)> = customs.iter().map(|c| (c.name.clone(), c.raw, c.data.clone())).collect();
                    if want != got {
                        out.failure = fail(
                            "customs_query_agrees",
                            format!(
                                "step {}: module.customs.iter() reports {} sections, the model has {} (after {} emits on this value)",
                                i,
                                got.len(),
                                want.len(),
                                emits
                            ),
                        );
                        break 'steps;
                    }
                }
                (Some(Op::CustomAddRaw { name, data }), StepOut::Custom { .. }) => {
                    model.slots.push(Slot { name: name.clone(), data: data.clone(), raw: true, live: true });
                }
                (Some(Op::CustomAddTyped { .. }), StepOut::Custom { name, data, .. }) => {
                    model.slots.push(Slot { name: name.clone(), data: data.clone(), raw: false, live: true });
                }
                (Some(Op::CustomDelete { nth }), StepOut::Custom { found, name, data, .. }) => {
                    if model.slots.is_empty() {
                        continue;
                    }
                    let k = *nth as usize % model.slots.len();
                    let s = &mut model.slots[k];
                    let want = if s.live { Some((s.name.clone(), s.data.clone())) } else { None };
                    let got = if *found { Some((name.clone(), data.clone())) } else { None };
                    if s.live {
                        out.hit("delete_live");
                    } else {
                        out.hit("delete_dead_refused");
                    }
                    s.live = false;
                    if want != got {
                        out.failure = fail("customs_op_result", format!("step {}: delete of id #{}: model says {:?}, walrus returned {:?}", i, k, want.map(|w| w.0), got.map(|g| g.0)));
                        break 'steps;
                    }
                }
                (Some(Op::CustomRemoveRaw { name }), StepOut::Custom { found, name: gname, data, .. }) => {
                    let pos = model.slots.iter().position(|s| s.live && s.raw && &s.name == name);
                    let want = pos.map(|p| (model.slots[p].name.clone(), model.slots[p].data.clone()));
                    if let Some(p) = pos {
                        model.slots[p].live = false;
                        out.hit("remove_raw_hit");
                    }
                    let got = if *found { Some((gname.clone(), data.clone())) } else { None };
                    if want != got {
                        out.failure = fail("customs_op_result", format!("step {}: remove_raw({:?}): model says {:?}, walrus returned {:?}", i, name, want.map(|w| w.1.len()), got.map(|g| g.1.len())));
                        break 'steps;
                    }
                }
                (Some(Op::CustomGet { nth }), StepOut::Custom { found, name, data, .. }) => {
                    if model.slots.is_empty() {
                        continue;
                    }
                    let k = *nth as usize % model.slots.len();
                    let s = &model.slots[k];
                    let want = if s.live { Some((s.name.clone(), s.data.clone())) } else { None };
                    let got = if *found { Some((name.clone(), data.clone())) } else { None };
                    if want != got {
                        out.failure = fail("customs_op_result", format!("step {}: get of id #{}: model says {:?}, walrus returned {:?} (after {} emits on this value)", i, k, want.map(|w| w.0), got.map(|g| g.0), emits));
                        break 'steps;
                    }
                }
                (_, other) => {
                    out.harness_error = Some(format!("unexpected transcript step {} for {:?}: {}", i, op.map(|o| o.kind()), life::brief(other)));
                    break 'steps;
                }
            }
        }
        // non-trivial: the module carried at least one uninterpreted section at some point and was emitted
        let had_sections = initial > 0 || case.ops.iter().any(|o| matches!(o, Op::CustomAddRaw { .. } | Op::CustomAddTyped { .. }));
        let emitted = case.ops.iter().any(|o| matches!(o, Op::Emit | Op::EmitFile { .. } | Op::Reparse { .. }));
        if had_sections && emitted {
            out.distinct_key = prng::mix64(prng::fnv(&input), prng::mix64(case.cfg.mask() as u64, prng::fnv(kinds.join(",").as_bytes()))) | 1;
        }
        out.add(&format!("initial_uninterpreted_sections_{}", initial.min(6)), 1);
        out.sample = Some(json!({
            "input": case.input.source.chars().take(120).collect::<String>(),
            "initial_uninterpreted": Model::from_bytes(&input).map(|m| m.live().iter().map(|(n, d)| format!("{:?}/{}B", n, d.len())).collect::<Vec<_>>()),
            "cfg_mask": case.cfg.mask(),
            "ops": kinds,
        }));
        out
    }

    fn shrink(&self, case: &Value) -> Vec<Value> {
        let Ok(c) = serde_json::from_value::<Case>(case.clone()) else { return vec![] };
        let mut v: Vec<Case> = Vec::new();
        for i in 0..c.ops.len() {
            let mut d = c.clone();
            d.ops.remove(i);
            v.push(d);
        }
        for (i, op) in c.ops.iter().enumerate() {
            let simpler = match op {
                Op::EmitFile { .. } => Some(Op::Emit),
                Op::Reparse { .. } => Some(Op::Emit),
                Op::CustomAddRaw { name, data } if data.len() > 1 => Some(Op::CustomAddRaw { name: name.clone(), data: data[..1].to_vec() }),
                _ => None,
            };
            if let Some(s) = simpler {
                let mut d = c.clone();
                d.ops[i] = s;
                v.push(d);
            }
        }
        let m = c.cfg.mask();
        let dflt = CfgBits::walrus_default();
        if c.cfg != dflt {
            let mut d = c.clone();
            d.cfg = dflt;
            v.push(d);
        }
        for bit in 0..9u32 {
            if m & (1 << bit) != 0 {
                let mut d = c.clone();
                d.cfg = CfgBits::from_mask(m & !(1 << bit));
                v.push(d);
            }
        }
        if c.ambient.arena_burn != 0 {
            let mut d = c.clone();
            d.ambient.arena_burn = 0;
            v.push(d);
        }
        // smaller input: drop non-custom sections one at a time (must stay valid), then custom ones
        let bytes = inputs::bytes_of(&c.input);
        if let Some(secs) = wasmsplit::split(&bytes) {
            // smallest possible carrier first
            let mut minimal = bytes[..8].to_vec();
            for s in secs.iter().filter(|s| s.id == 0) {
                minimal.extend_from_slice(&bytes[s.range.clone()]);
            }
            if minimal.len() < bytes.len() {
                let mut d = c.clone();
                d.input = inputs::input_ref("minimal-carrier", &minimal);
                v.insert(0, d);
            }
            for s in secs.iter().rev() {
                let mut b = bytes[..s.range.start].to_vec();
                b.extend_from_slice(&bytes[s.range.end..]);
                if crate::validator::validate(&b, false).is_ok() {
                    let mut d = c.clone();
                    d.input = inputs::input_ref("shrunk", &b);
                    v.push(d);
                }
            }
        }
        v.into_iter().map(|d| serde_json::to_value(d).unwrap()).collect()
    }

    fn rule(&self) -> String {
        "one case = (valid module with 0-6 spliced custom sections at random section boundaries, switch vector, history of 1-12 operations over emit / file emit with I/O fault / GC / re-parse under another vector / add raw / add typed / delete / remove_raw / get / query); \
         non-trivial = an uninterpreted custom section existed at some point AND the module was emitted at least once; distinct = distinct (input digest, switch vector, operation-kind sequence)"
            .to_string()
    }
    fn assumptions(&self) -> Vec<String> {
        vec![
            "the section splitter (40 lines, no walrus code) reads the output correctly".into(),
            "interpreted = name is `name`, `producers` or starts with `.debug` (walrus's documented behaviour); those are out of scope on both sides".into(),
            "user-defined section types are represented by one harness type with constant payload".into(),
            "single-threaded: custom sections are not touched by the parallel sites".into(),
        ]
    }
    fn components(&self) -> Value {
        json!({ "real": ["walrus (serial build)", "walrus-macro", "id-arena", "wasmparser", "wasm-encoder", "std::fs on tmpfs-backed scratch + /dev/full"], "stub": ["getrandom (seeded entropy)"] })
    }
}
