//! C09 — Parallel and serial builds agree under every schedule.
//!
//! Real walrus (feature "parallel") + real rayon iterators + real id-arena on
//! the simulated rayon-core, one seeded schedule per run; oracle: the serial
//! build linked into the same process.

use crate::framework::{Env, Failure, Outcome, Prop, Tier};
use crate::gen::{self, GenParams};
use crate::inputs::{self, Mix};
use crate::life;
use crate::prng::{self, Rng};
use crate::types::*;
use serde::{Deserialize, Serialize};
use serde_json::{json, Value};

pub struct C09;

#[derive(Serialize, Deserialize, Clone, Debug)]
pub struct Case {
    pub input: InputRef,
    pub cfg: CfgBits,
    pub ops: Vec<Op>,
    pub ambient: Ambient,
    pub sim: SimKnobs,
    #[serde(default)]
    pub schedule: Option<ScheduleRec>,
    /// engine-level nondeterminism detector: replay the recorded schedule strictly and demand
    /// zero divergence and an identical transcript
    #[serde(default)]
    pub recheck: bool,
}

pub fn draw_knobs(rng: &mut Rng) -> SimKnobs {
    let threads = match rng.below(10) {
        0 => 1,
        1..=3 => rng.range(2, 4) as u32,
        4..=7 => rng.range(2, 8) as u32,
        _ => rng.range(2, 16) as u32,
    };
    let steal_p = *rng.pick(&[0u32, 6554, 32768, 58982, 65536, 65536, 32768]);
    let log_thin = *rng.pick(&[1u32, 1, 4, 4, 32, 0, 257]);
    let strategy = match rng.below(10) {
        0..=3 => Strategy::Random,
        4..=6 => Strategy::Sticky { keep: *rng.pick(&[128u8, 224, 250]) },
        7 => Strategy::Pct { depth: rng.range(1, 4) as u8, horizon: *rng.pick(&[50u32, 500, 5000, 100_000]) },
        8 => Strategy::Bursty { q: *rng.pick(&[50u32, 1000, 20_000]) },
        _ => {
            if rng.bool() {
                Strategy::Lowest
            } else {
                Strategy::Bursty { q: *rng.pick(&[200u32, 5000]) }
            }
        }
    };
    // a third of the runs also preempt at control-flow edges inside the parallel closures
    // (SanitizerCoverage hook in the instrumented walrus_par build), at varying density
    let edge_thin = match rng.below(9) {
        0 => 1,
        1 => 5,
        2 => 37,
        3 => 401,
        _ => 0,
    };
    // half of the runs switch right before atomic operations (the synchronisation operations through which
    // tasks of safe Rust code can communicate at all)
    let atomic_thin = *rng.pick(&[0u32, 0, 0, 1, 1, 1, 2, 7]);
    let spurious_wake = *rng.pick(&[0u32, 0, 0, 0, 0, 4, 64]);
    SimKnobs { threads, steal_p, log_thin, strategy, sched_seed: rng.u64(), edge_thin, atomic_thin, spurious_wake }
}

pub fn draw_cfg(rng: &mut Rng, allow_dwarf: bool) -> CfgBits {
    let mut c = CfgBits::from_mask(rng.below(1024) as u32);
    // strict/only_stable do not touch the parallel sites; keep inputs accepted
    c.only_stable = false;
    c.strict = true;
    if !allow_dwarf {
        c.dwarf = false;
    }
    // the probe only sees the code-offset map when the transform is preserved
    if c.probe && rng.chance(3, 4) {
        c.code_transform = true;
    }
    c
}

impl Prop for C09 {
    fn id(&self) -> &'static str {
        "C09"
    }
    fn level(&self) -> &'static str {
        "exploration"
    }
    fn engine(&self) -> &'static str {
        "shuttle-on-rayon-core-sim"
    }
    fn runs(&self, tier: Tier) -> u64 {
        match tier {
            Tier::Quick => 24_000,
            Tier::Thorough => 2_400_000,
        }
    }

    fn plan(&self, env: &Env, _index: u64, rng: &mut Rng) -> Value {
        // inputs: biased to many functions of equal and unequal size
        let big = rng.chance(1, if env.tier == Tier::Quick { 400 } else { 120 });
        let many = rng.chance(1, if env.tier == Tier::Quick { 300 } else { 200 });
        let picked = if many {
            // thousands of tiny functions (equal sizes: every ordering decision is a tie), beyond any threshold
            // at which an implementation might switch algorithms (chunking, parallel sorts, batch sizes)
            let n = *rng.pick(&[1024u32, 1500, 3000, 5000]);
            let kind = *rng.pick(&[11u8, 19]);
            let b = crate::faults::scale_bomb(n, kind);
            inputs::Picked { iref: inputs::input_ref(&format!("many-functions:{}:{}", n, kind), &b), bytes: b, recipe: None }
        } else if big {
            inputs::pick(env, rng, &Mix { fixture: 0, dodrio: 100, generated: 0, max_funcs: 0, valid_only: false })
        } else if rng.chance(1, 5) {
            inputs::pick(env, rng, &Mix { fixture: 100, dodrio: 0, generated: 0, max_funcs: 0, valid_only: false })
        } else {
            let maxf = if rng.chance(1, 20) { 400 } else { 60 };
            let mut p = GenParams::draw(rng, maxf);
            if p.n_funcs < 4 && rng.chance(3, 4) {
                p.n_funcs = rng.range(4, 40) as u32;
            }
            // a type error planted in 0..3 bodies: accept/reject must agree too
            if rng.chance(1, 4) {
                p.plant_errors = rng.range(1, 3) as u32;
            }
            p.passive_bias = rng.chance(1, 2);
            let g = gen::generate(&p);
            inputs::Picked {
                iref: inputs::input_ref(&format!("gen:{}", serde_json::to_string(&p).unwrap()), &g.bytes),
                bytes: g.bytes,
                recipe: Some(g.recipe),
            }
        };
        let picked = inputs::maybe_attach_dwarf(picked, rng, 1, 8);
        let (has, synth) = inputs::debug_status(&picked.iref.source, &picked.bytes);
        let has_debug = has && !synth;
        let mut cfg = draw_cfg(rng, !has_debug);
        if synth && rng.chance(3, 4) {
            // DWARF generation makes the per-function offset maps flow through the serial post-pass
            cfg.dwarf = true;
        }
        let mut ops = Vec::new();
        let n = rng.range(1, 4);
        for _ in 0..n {
            ops.push(match rng.below(10) {
                0..=4 => Op::Emit,
                5..=6 => Op::Gc,
                7 => Op::Query,
                _ => {
                    let mut c = draw_cfg(rng, !has_debug);
                    if synth {
                        c.dwarf = false;
                    }
                    Op::Reparse { cfg: c }
                }
            });
        }
        ops.push(Op::Emit);
        let picked_len = picked.bytes.len();
        let case = Case {
            input: picked.iref,
            cfg,
            ops,
            ambient: Ambient { entropy: rng.u64(), arena_burn: *rng.pick(&[0u32, 0, 1, 3, 100, 70000]), heap_pad: rng.below(3) as u8 },
            sim: {
                let mut k = draw_knobs(rng);
                // dense edge preemption only on inputs where it stays cheap
                if picked_len > 60_000 && k.edge_thin != 0 {
                    k.edge_thin = k.edge_thin.max(401);
                } else if picked_len > 12_000 && k.edge_thin != 0 {
                    k.edge_thin = k.edge_thin.max(37);
                }
                k
            },
            schedule: None,
            recheck: rng.chance(1, 40),
        };
        serde_json::to_value(case).unwrap()
    }

    fn execute(&self, env: &Env, case: &Value) -> Outcome {
        let mut out = Outcome::default();
        let case: Case = match serde_json::from_value(case.clone()) {
            Ok(c) => c,
            Err(e) => {
                out.harness_error = Some(format!("bad case: {}", e));
                return out;
            }
        };
        let input = inputs::bytes_of(&case.input);
        let tag = prng::fnv(&input) ^ case.sim.sched_seed;
        // reference: serial build, pristine ambient
        let ser = life::run_ser(env, &input, &case.cfg, &case.ops, &Ambient { entropy: 1, arena_burn: 0, heap_pad: 0 }, tag);
        let Some(tser) = ser.transcript else {
            out.harness_error = Some(format!("serial run did not complete: {:?}", ser.abort));
            return out;
        };
        let replay = case.schedule.clone().map(|s| (s, true));
        let mut case = case;
        // a task preempted while holding a std lock blocks the single-threaded simulation (an artefact of
        // cooperative scheduling, not of the code): coarser preemption, in a fresh process when in a worker
        let par = match life::run_par_robust(env, &input, &case.cfg, &case.ops, &case.ambient, &case.sim, replay, tag) {
            Ok((par, used, retries)) => {
                if retries > 0 {
                    out.hit(if used.log_thin == 0 && case.sim.log_thin != 0 { "stuck_under_log_preemption_retried_task_granular" } else { "stuck_under_edge_preemption_retried_without" });
                }
                case.sim = used;
                par
            }
            Err(life::StuckErr::Respawn(l)) => {
                out.respawn_at_level = Some(l);
                return out;
            }
            Err(life::StuckErr::Final(e)) => {
                out.harness_error = Some(e);
                return out;
            }
        };
        let sim = par.sim.as_ref().unwrap();
        let mut failing_case = case.clone();
        failing_case.schedule = Some(sim.schedule.clone());
        let fail = |oracle: &str, detail: String| Failure { oracle: oracle.to_string(), detail, case: serde_json::to_value(&failing_case).unwrap() };

        // reach
        out.add("sim_joins", sim.pool.joins);
        out.add("sim_steals", sim.pool.steals);
        out.add("sched_points_in_parse", sim.stats.sched_points_parse + sim.stats.sched_points_instr_loc);
        out.add("sched_points_in_emit", sim.stats.sched_points_emit);
        out.add("sched_points_at_control_flow_edges", sim.stats.sched_points_edge);
        out.add("control_flow_edges_executed_in_parallel_build", sim.stats.edges_seen);
        if case.sim.edge_thin != 0 {
            out.hit("runs_with_edge_level_preemption");
        }
        if case.sim.atomic_thin != 0 {
            out.hit("runs_with_preemption_before_atomic_operations");
        }
        out.add("sched_points_before_atomic_operations", sim.stats.sched_points_atomic);
        out.add("atomic_operations_executed_in_parallel_build", sim.stats.atomic_ops_seen);
        out.add("futex_waits_parked_in_simulator", sim.stats.futex_waits_as_yield);
        out.add("futex_wakes_delivered_in_simulator", sim.stats.futex_wakes);
        out.add("fault:spurious_futex_wakeup", sim.stats.futex_spurious_wakeups);
        out.add("futex_timed_waits_expired_in_simulated_time", sim.stats.futex_timeouts_fired);
        out.add("context_switches", sim.stats.context_switches);
        out.add("scheduler_decisions", sim.stats.decisions);
        out.add(&format!("threads_{:02}", case.sim.threads), 1);
        if sim.pool.max_live_workers >= 2 {
            out.hit("runs_with_2plus_live_stolen_tasks");
        }
        if sim.pool.unusual_entry > 0 {
            out.hit("runs_reaching_scope_or_bridge_entry_points");
        }
        if case.schedule.is_some() && sim.stats.replay_divergences > 0 {
            // The recorded schedule cannot be followed: the code under test is not the code the file was
            // recorded against (e.g. a repaired tree).  The verdict of the lenient replay (recorded decisions
            // where they still apply) stands, flagged as such; exact reproduction is only promised on the tree
            // the violation was found on.
            out.hit("replay_schedule_diverged_code_differs_from_recording");
        }
        let parse_failed = matches!(tser.steps.first(), Some(StepOut::Parsed { ok: false, .. }));
        if parse_failed {
            out.hit("inputs_rejected_by_serial");
        }
        if tser.first_panic().is_some() {
            out.hit("serial_panicked");
        }

        if let Some(msg) = &par.abort {
            if msg.contains("HARNESS-LIMIT") {
                out.harness_error = Some(format!("simulator limit reached: {}", life::scrub(msg)));
            } else if msg.to_lowercase().contains("deadlock") {
                out.failure = Some(fail("par_deadlock", format!("the parallel run deadlocked under the simulated schedule: {}", life::scrub(msg))));
            } else if par.transcript.is_none() {
                out.failure = Some(fail("par_abort", format!("the parallel run did not complete: {}", life::scrub(msg))));
            }
        }
        if out.failure.is_none() && out.harness_error.is_none() {
            if let Some(tpar) = &par.transcript {
                if let Some((step, kind, detail)) = life::first_difference(&tser, tpar) {
                    let oracle = match kind {
                        "decision" => "par_decision_eq_ser",
                        "panic" => "par_panic_parity",
                        "bytes" => "par_bytes_eq_ser",
                        _ => "par_step_eq_ser",
                    };
                    let opname = if step == 0 { "parse".to_string() } else { case.ops[step - 1].kind().to_string() };
                    out.failure = Some(fail(oracle, format!("step {} ({}): serial vs parallel: {}", step, opname, detail)));
                }
            }
        }
        if case.recheck && case.schedule.is_none() && out.failure.is_none() && out.harness_error.is_none() {
            let again = life::run_par(env, &input, &case.cfg, &case.ops, &case.ambient, &case.sim, Some((sim.schedule.clone(), true)), tag);
            let div = again.sim.as_ref().map(|s| s.stats.replay_divergences).unwrap_or(0);
            out.hit("schedules_replayed_strictly");
            if div > 0 || again.transcript != par.transcript || again.sim.as_ref().map(|s| &s.schedule) != Some(&sim.schedule) {
                out.harness_error = Some(format!("uncontrolled nondeterminism: strict replay of the recorded schedule diverged ({} divergences, transcript equal: {})", div, again.transcript == par.transcript));
                return out;
            }
        }
        let tpar_digest = par.transcript.as_ref().map(|t| t.digest()).unwrap_or(0);
        let sched_digest = prng::fnv(serde_json::to_string(&sim.schedule).unwrap().as_bytes());
        out.digest = prng::mix64(prng::mix64(tser.digest(), tpar_digest), sched_digest);
        // non-trivial: at least one fork-join actually happened
        if sim.pool.joins > 0 {
            out.distinct_key = prng::mix64(prng::mix64(prng::fnv(&input), case.cfg.mask() as u64), prng::mix64(sim.stats.interleaving_hash, sim.pool.split_tree_hash)) | 1;
            out.measures.push(("interleavings", prng::mix64(prng::fnv(&input), sim.stats.interleaving_hash)));
            out.measures.push(("split_trees", prng::mix64(prng::fnv(&input), sim.pool.split_tree_hash)));
        }
        out.sample = Some(json!({
            "input": case.input.source.chars().take(160).collect::<String>(),
            "input_bytes": input.len(),
            "cfg_mask": case.cfg.mask(),
            "ops": case.ops.iter().map(|o| o.kind()).collect::<Vec<_>>(),
            "sim": case.sim,
            "joins": sim.pool.joins, "steals": sim.pool.steals, "decisions": sim.stats.decisions, "context_switches": sim.stats.context_switches,
            "schedule_prefix": sim.schedule.tasks.iter().take(48).collect::<Vec<_>>(),
        }));
        out
    }

    fn shrink(&self, case: &Value) -> Vec<Value> {
        let Ok(c) = serde_json::from_value::<Case>(case.clone()) else { return vec![] };
        let mut v: Vec<Case> = Vec::new();
        // fewer operations
        for i in 0..c.ops.len() {
            if c.ops.len() > 1 {
                let mut d = c.clone();
                d.ops.remove(i);
                d.schedule = None;
                v.push(d);
            }
        }
        // simpler configuration
        for bit in 0..10u32 {
            let m = c.cfg.mask();
            if m & (1 << bit) != 0 && bit != 5 {
                let mut d = c.clone();
                d.cfg = CfgBits::from_mask(m & !(1 << bit));
                d.schedule = None;
                v.push(d);
            }
        }
        // calmer ambient
        if c.ambient.arena_burn != 0 || c.ambient.heap_pad != 0 {
            let mut d = c.clone();
            d.ambient.arena_burn = 0;
            d.ambient.heap_pad = 0;
            v.push(d);
        }
        // fewer threads, coarser preemption (the schedule must be re-searched)
        if c.sim.threads > 2 {
            let mut d = c.clone();
            d.sim.threads = 2;
            d.schedule = None;
            v.push(d);
        }
        if c.sim.edge_thin != 0 {
            let mut d = c.clone();
            d.sim.edge_thin = 0;
            d.schedule = None;
            v.push(d);
            let mut d = c.clone();
            d.sim.edge_thin = c.sim.edge_thin.saturating_mul(8);
            d.schedule = None;
            v.push(d);
        }
        if c.sim.atomic_thin != 0 {
            let mut d = c.clone();
            d.sim.atomic_thin = 0;
            d.schedule = None;
            v.push(d);
        }
        if c.sim.log_thin != 0 {
            let mut d = c.clone();
            d.sim.log_thin = 0;
            d.schedule = None;
            v.push(d);
        }
        // smaller generated input
        if let Some(rest) = c.input.source.strip_prefix("gen:").filter(|_| !c.cfg.dwarf) {
            if let Ok(p) = serde_json::from_str::<GenParams>(rest) {
                let mut smaller = Vec::new();
                if p.n_funcs > 2 {
                    let mut q = p.clone();
                    q.n_funcs = p.n_funcs / 2;
                    smaller.push(q);
                    let mut q = p.clone();
                    q.n_funcs = p.n_funcs - 1;
                    smaller.push(q);
                }
                if p.size_mode != 0 {
                    let mut q = p.clone();
                    q.size_mode = 0;
                    smaller.push(q);
                }
                if p.n_customs > 0 {
                    let mut q = p.clone();
                    q.n_customs = 0;
                    smaller.push(q);
                }
                for q in smaller {
                    let g = gen::generate(&q);
                    let mut d = c.clone();
                    d.input = inputs::input_ref(&format!("gen:{}", serde_json::to_string(&q).unwrap()), &g.bytes);
                    d.schedule = None;
                    v.push(d);
                }
            }
        }
        // with a fresh schedule the same scheduler seed is re-searched over a few seeds
        let mut out = Vec::new();
        for d in v {
            if d.schedule.is_none() {
                for k in 0..4u64 {
                    let mut e = d.clone();
                    e.sim.sched_seed = d.sim.sched_seed.wrapping_add(k);
                    out.push(serde_json::to_value(e).unwrap());
                }
            } else {
                out.push(serde_json::to_value(d).unwrap());
            }
        }
        out
    }

    fn rule(&self) -> String {
        "one case = (input, configuration vector, operation list, ambient, simulated pool width / steal probability / preemption thinning / strategy, scheduler seed); \
         non-trivial = the run executed at least one rayon fork-join under the simulated scheduler; \
         distinct = distinct (input digest, configuration, context-switch trace hash in task-local progress units, split-tree hash)"
            .to_string()
    }
    fn assumptions(&self) -> Vec<String> {
        vec![
            "rayon-core is replaced by a stub that implements join_context/join/current_num_threads/current_thread_index/in_place_scope on shuttle; the real work-stealing pool is exercised only by the Miri leg".into(),
            "preemption inside a task happens at log records, on_instr_loc calls, before atomic operations (five runs in eight) and at every k-th control-flow edge (four runs in nine) of code generated in the instrumented parallel walrus build (its own code and every generic of std / dependencies instantiated there); precompiled code of other crates is atomic between two such points".into(),
            "sequentially consistent interleavings only; blocking std primitives are modelled at the futex level (wait parks until a matching wake; spurious wake-ups are an injected fault); thread-identity primitives (thread::park, mpsc blocking receive) and thread-locals see ONE OS thread for all simulated tasks".into(),
            format!("thread-locals: {}", if crate::simrt::tls_mode() { "the parallel build of THIS tree uses thread-local symbols, so user closures were run to completion (task-granular schedules only)" } else { "the parallel build of this tree defines / references no thread-local symbol (std's hash-seed cell excepted); if it did, schedules would be task-granular (an in-closure switch would share one thread-local between tasks that real threads keep apart)" }),
            "pool widths 1..16; error identity on rejection is not compared, only the decision".into(),
        ]
    }
    fn components(&self) -> Value {
        json!({
            "real": ["walrus (serial build)", "walrus (parallel build)", "walrus-macro", "id-arena (rayon feature)", "rayon 1.12 iterators/plumbing/collect", "wasmparser", "wasm-encoder", "gimli", "std"],
            "stub": ["rayon-core (simulated fork-join on shuttle)", "log::Log implementation (scheduling point)", "getrandom (seeded entropy)", "libc syscall: futex wait/wake of simulated tasks modelled in the simulator, everything else passed to the kernel", "__tsan_atomic* / __sanitizer_cov_trace_pc_guard (scheduling point + the real operation)"]
        })
    }
}
