//! C08 — Emission is deterministic, repeatable and a fixpoint of the round trip.
//!
//! The ambient-nondeterminism seams (hash entropy, process-global arena counter,
//! heap layout, process boundary, rayon schedule) are perturbed per run; every
//! emit must equal the bytes a pristine process produced.

use crate::framework::{Env, Failure, Outcome, Prop, Tier};
use crate::inputs::{self, Mix};
use crate::life;
use crate::prng::{self, Rng};
use crate::types::*;
use serde::{Deserialize, Serialize};
use serde_json::{json, Value};
use std::io::Write;
use std::process::{Command, Stdio};

pub struct C08;

#[derive(Serialize, Deserialize, Clone, Debug)]
pub struct Case {
    pub input: InputRef,
    pub cfg: CfgBits,
    pub ops: Vec<Op>,
    pub ambient: Ambient,
    /// run the history on the parallel build inside a simulated schedule
    #[serde(default)]
    pub par: Option<SimKnobs>,
    #[serde(default)]
    pub schedule: Option<ScheduleRec>,
    /// compute the reference in a pristine child process (else: fresh thread, fixed entropy, in this process)
    #[serde(default)]
    pub pristine_process: bool,
}

/// `walrus-dst reference`: stdin = {"input_hex":..,"cfg":..}; stdout = hex of emit, or "ERR".
pub fn reference_main() {
    let mut s = String::new();
    std::io::Read::read_to_string(&mut std::io::stdin(), &mut s).unwrap();
    let v: Value = serde_json::from_str(&s).unwrap();
    let input = crate::wasmsplit::unhex(v["input_hex"].as_str().unwrap()).unwrap();
    let cfg: CfgBits = serde_json::from_value(v["cfg"].clone()).unwrap();
    let r = crate::simrt::run_plain(Some(0x5eed), 16 << 20, move || match crate::ser::parse_with(&input, &cfg) {
        (Ok(mut m), _) => Some(m.emit_wasm()),
        _ => None,
    });
    match r {
        Ok(Some(b)) => println!("{}", crate::wasmsplit::hex(&b)),
        _ => println!("ERR"),
    }
}

fn pristine_reference(input: &[u8], cfg: &CfgBits) -> Result<Option<Vec<u8>>, String> {
    let exe = std::env::current_exe().map_err(|e| e.to_string())?;
    let mut child = Command::new(exe)
        .arg("reference")
        .env_clear()
        .env("PATH", "/usr/bin:/bin")
        .stdin(Stdio::piped())
        .stdout(Stdio::piped())
        .stderr(Stdio::null())
        .spawn()
        .map_err(|e| e.to_string())?;
    let req = json!({"input_hex": crate::wasmsplit::hex(input), "cfg": cfg});
    child.stdin.take().unwrap().write_all(req.to_string().as_bytes()).map_err(|e| e.to_string())?;
    let out = child.wait_with_output().map_err(|e| e.to_string())?;
    let s = String::from_utf8_lossy(&out.stdout);
    let s = s.trim();
    if s == "ERR" || s.is_empty() {
        return Ok(None);
    }
    crate::wasmsplit::unhex(s).map(Some).ok_or_else(|| "bad reference output".to_string())
}

fn local_reference(input: &[u8], cfg: &CfgBits) -> Option<Vec<u8>> {
    let (input, cfg) = (input.to_vec(), cfg.clone());
    crate::simrt::run_plain(Some(0x5eed), 16 << 20, move || match crate::ser::parse_with(&input, &cfg) {
        (Ok(mut m), _) => Some(m.emit_wasm()),
        _ => None,
    })
    .ok()
    .flatten()
}

/// Does any function body of `wasm` contain an instruction behind an unconditional transfer of control
/// (`unreachable`, `br`, `br_table`, `return`, `return_call*`) in the same block?  (walrus's parser drops those.)
/// Unreadable bytes count as "yes" (no conclusion is drawn then).
fn has_dead_code(wasm: &[u8]) -> bool {
    use wasmparser::Operator as O;
    for p in wasmparser::Parser::new(0).parse_all(wasm) {
        let Ok(p) = p else { return true };
        if let wasmparser::Payload::CodeSectionEntry(body) = p {
            let Ok(mut ops) = body.get_operators_reader() else { return true };
            let mut outer: Vec<bool> = Vec::new();
            let mut dead = false;
            while !ops.eof() {
                let Ok(op) = ops.read() else { return true };
                match op {
                    O::End => dead = outer.pop().unwrap_or(false),
                    O::Else => dead = false,
                    _ if dead => return true,
                    O::Block { .. } | O::Loop { .. } | O::If { .. } => {
                        outer.push(false);
                    }
                    O::Unreachable | O::Br { .. } | O::BrTable { .. } | O::Return | O::ReturnCall { .. } | O::ReturnCallIndirect { .. } => dead = true,
                    _ => {}
                }
            }
        }
    }
    false
}

fn draw_ops(rng: &mut Rng, same_cfg: &CfgBits, max_len: u64) -> Vec<Op> {
    let n = if rng.chance(3, 4) { rng.range(1, 4.min(max_len)) } else { rng.range(1, max_len) };
    let mut ops = vec![];
    for _ in 0..n {
        ops.push(match rng.below(16) {
            0..=5 => Op::Emit,
            6 => Op::EmitFile { target: FileTarget::Ok },
            7 => Op::EmitFile { target: rng.pick(&[FileTarget::NoSpace, FileTarget::MissingDir, FileTarget::IsDir]).clone() },
            8..=9 => Op::Query,
            10 => Op::BurnArenas { n: *rng.pick(&[1u32, 7, 300, 66000]) },
            11 => Op::Unrelated { which: rng.u32() },
            12..=13 => Op::Reparse { cfg: same_cfg.clone() },
            // (gc changes the logical module: from there on only repeatability and the fixpoint are comparable)
            14 => Op::Gc,
            _ => Op::Emit,
        });
    }
    ops.push(Op::Emit);
    ops
}

impl Prop for C08 {
    fn id(&self) -> &'static str {
        "C08"
    }
    fn level(&self) -> &'static str {
        "exploration"
    }
    fn engine(&self) -> &'static str {
        "lifecycle-simulator + shuttle-on-rayon-core-sim"
    }
    fn runs(&self, tier: Tier) -> u64 {
        match tier {
            Tier::Quick => 6_000,
            Tier::Thorough => 500_000,
        }
    }

    fn plan(&self, env: &Env, index: u64, rng: &mut Rng) -> Value {
        let picked = inputs::pick(env, rng, &Mix { fixture: 40, dodrio: if env.tier == Tier::Quick { 0 } else { 1 }, generated: 60, max_funcs: 30, valid_only: true });
        let n = if rng.chance(1, 2) { 0 } else { rng.range(1, 4) as u32 };
        let bytes = inputs::splice_customs(&picked.bytes, rng, n);
        let spliced = inputs::Picked { iref: inputs::input_ref(&picked.iref.source.chars().take(200).collect::<String>(), &bytes), bytes: bytes.clone(), recipe: None };
        let spliced = inputs::maybe_attach_dwarf(spliced, rng, 1, 6);
        let (has, synth) = inputs::debug_status(&spliced.iref.source, &spliced.bytes);
        let bytes = spliced.bytes.clone();
        let mut cfg = CfgBits::from_mask(rng.below(512) as u32);
        cfg.only_stable = false;
        cfg.probe = false;
        if has && !synth {
            cfg.dwarf = false;
        }
        if synth && rng.chance(3, 4) {
            cfg.dwarf = true;
        }
        let max_len = if env.tier == Tier::Quick { 6 } else { 10 };
        let mut ops = draw_ops(rng, &cfg, max_len);
        // a quarter of the histories EDIT the module between emits / queries ("emitting consumes or alters
        // nothing": the last emit must equal the emit of the same edits made without any emit / query before)
        let edit_history = !cfg.dwarf && rng.chance(1, 4);
        if edit_history {
            ops.clear();
            let n = rng.range(2, max_len + 2);
            for _ in 0..n {
                ops.push(match rng.below(12) {
                    0..=2 => Op::Emit,
                    3..=4 => Op::Query,
                    5 => Op::EmitFile { target: rng.pick(&[FileTarget::Ok, FileTarget::NoSpace, FileTarget::MissingDir]).clone() },
                    6 => Op::Gc,
                    7..=8 => Op::Edit(Edit::InsertViaBlockMut { func: rng.u32(), seq: rng.u32(), pos: rng.u32(), n: 1 + rng.below(8) as u32 }),
                    9 => Op::Edit(Edit::VisitMutPass { func: rng.u32(), what: rng.below(2) as u8 }),
                    _ => Op::Edit(super::c02::draw_edit(rng)),
                });
            }
            if !ops.iter().any(|o| matches!(o, Op::Edit(_))) {
                ops.push(Op::Edit(super::c02::draw_edit(rng)));
            }
            ops.push(Op::Emit);
            // a third of the edit histories end with a re-parse of the edited module's output and one more emit:
            // the fixpoint clause for modules that were BUILT through the API (such a history is judged by
            // repeatability and the fixpoint; `emit_alters_nothing` needs a reparse-free history)
            if rng.chance(1, 3) {
                ops.push(Op::Reparse { cfg: cfg.clone() });
                ops.push(Op::Emit);
            }
        }
        if cfg.dwarf && synth {
            // the fixpoint clause is not claimed through walrus's own DWARF output (documented as experimental)
            for o in ops.iter_mut() {
                if matches!(o, Op::Reparse { .. }) {
                    *o = Op::Emit;
                }
            }
        }
        let par = if rng.chance(1, 3) { Some(super::c09::draw_knobs(rng)) } else { None };
        let case = Case {
            input: inputs::input_ref(&spliced.iref.source, &bytes),
            cfg,
            ops,
            ambient: Ambient { entropy: rng.u64(), arena_burn: *rng.pick(&[0u32, 1, 5, 1000, 65536, 70001]), heap_pad: rng.below(4) as u8 },
            par,
            schedule: None,
            // every run in the quick tier up to a cap; a slice in thorough
            pristine_process: if env.tier == Tier::Quick { index % 3 == 0 } else { index % 40 == 0 },
        };
        serde_json::to_value(case).unwrap()
    }

    fn execute(&self, env: &Env, case_v: &Value) -> Outcome {
        let mut out = Outcome::default();
        let case: Case = match serde_json::from_value(case_v.clone()) {
            Ok(c) => c,
            Err(e) => {
                out.harness_error = Some(format!("bad case: {}", e));
                return out;
            }
        };
        let input = inputs::bytes_of(&case.input);
        let reference = if case.pristine_process {
            out.hit("reference_from_pristine_process");
            match pristine_reference(&input, &case.cfg) {
                Ok(r) => r,
                Err(e) => {
                    out.harness_error = Some(format!("reference process failed: {}", e));
                    return out;
                }
            }
        } else {
            local_reference(&input, &case.cfg)
        };
        let Some(reference) = reference else {
            out.hit("inputs_rejected_by_walrus");
            return out;
        };
        let tag = prng::fnv(&input) ^ case.ambient.entropy;
        let mut effective_knobs: Option<SimKnobs> = None;
        let (ran, sched) = match &case.par {
            None => (life::run_ser(env, &input, &case.cfg, &case.ops, &case.ambient, tag), None),
            Some(k) => {
                out.hit("histories_on_parallel_build_in_sim");
                let (r, used, retries) = match life::run_par_robust(env, &input, &case.cfg, &case.ops, &case.ambient, k, case.schedule.clone().map(|s| (s, true)), tag) {
                    Ok(x) => x,
                    Err(life::StuckErr::Respawn(l)) => {
                        out.respawn_at_level = Some(l);
                        return out;
                    }
                    Err(life::StuckErr::Final(e)) => {
                        out.harness_error = Some(e);
                        return out;
                    }
                };
                if retries > 0 {
                    out.hit("stuck_in_sim_retried_with_coarser_preemption");
                }
                effective_knobs = Some(used);
                let s = r.sim.as_ref().map(|s| s.schedule.clone());
                if case.schedule.is_some() && r.sim.as_ref().map(|s| s.stats.replay_divergences).unwrap_or(0) > 0 {
                    // recorded against other code: the lenient verdict stands (see C09)
                    out.hit("replay_schedule_diverged_code_differs_from_recording");
                }
                (r, s)
            }
        };
        let mut failing = case.clone();
        failing.schedule = sched;
        if let Some(k) = effective_knobs {
            failing.par = Some(k);
        }
        let fail = |oracle: &str, detail: String| Some(Failure { oracle: oracle.to_string(), detail, case: serde_json::to_value(&failing).unwrap() });
        let Some(t) = ran.transcript else {
            let msg = ran.abort.unwrap_or_default();
            if msg.contains("HARNESS-LIMIT") {
                out.harness_error = Some(life::scrub(&msg));
            } else {
                out.failure = fail("run_completes", format!("the history did not complete: {}", life::scrub(&msg)));
            }
            return out;
        };
        out.digest = prng::mix64(t.digest(), prng::fnv(&reference));
        let is_mutation = |o: &Op| matches!(o, Op::Edit(_) | Op::Gc | Op::CustomAddRaw { .. } | Op::CustomAddTyped { .. } | Op::CustomDelete { .. } | Op::CustomRemoveRaw { .. });
        let first_mutation = case.ops.iter().position(is_mutation);
        let has_reparse = case.ops.iter().any(|o| matches!(o, Op::Reparse { .. }));
        // What the next emit of the current value must equal, and why:
        //   the pristine reference (nothing but parse happened)            -> emit_eq_reference
        //   the previous emit of the same, unmutated value                 -> emit_repeatable
        //   the bytes this value was re-parsed from (walrus's own output)  -> reparse_fixpoint
        // A mutation (edit / gc / custom-section operation) makes it unknown until the next emit defines it.
        let mut expect: Option<(Vec<u8>, &'static str)> = Some((reference.clone(), "emit_eq_reference"));
        let mut emits_on_value = 0u32;
        let mut values = 0u32;
        let mut comparisons = 0u64;
        let mut kinds: Vec<&'static str> = Vec::new();
        'steps: for (i, step) in t.steps.iter().enumerate() {
            let op = if i == 0 { None } else { Some(&case.ops[i - 1]) };
            if let Some(o) = op {
                kinds.push(o.kind());
                if is_mutation(o) {
                    expect = None;
                }
            }
            match step {
                StepOut::Parsed { ok: true, .. } => {}
                StepOut::Parsed { ok: false, .. } => {
                    // the reference accepted this input under the same configuration
                    out.failure = fail("emit_eq_reference", format!("step {}: this run rejected an input the pristine run accepted", i));
                    break 'steps;
                }
                StepOut::Panic { .. } | StepOut::Skipped => {
                    out.hit("history_ended_by_panic");
                    break 'steps;
                }
                StepOut::Emit { bytes } => {
                    if let Some((want, o)) = &expect {
                        comparisons += 1;
                        out.hit(&format!("checked_{}", o));
                        if emits_on_value >= 2 {
                            out.hit("emit_3rd_or_later_on_same_value");
                        }
                        if bytes != want {
                            out.failure = fail(o, format!("step {} ({}; emit #{} on value #{}): {}", i, o, emits_on_value + 1, values, life::bytes_diff(want, bytes)));
                            break 'steps;
                        }
                    }
                    expect = Some((bytes.clone(), "emit_repeatable"));
                    emits_on_value += 1;
                }
                StepOut::EmitFile { ok, file, .. } => {
                    if let Some(Op::EmitFile { target }) = op {
                        out.hit(&format!("fault:{}", Op::EmitFile { target: target.clone() }.kind()));
                    }
                    if *ok {
                        if let Some(f) = file {
                            if let Some((want, o)) = &expect {
                                comparisons += 1;
                                if f != want {
                                    let o = if *o == "emit_repeatable" { "file_eq_memory" } else { o };
                                    out.failure = fail(o, format!("step {} ({}): the file written by emit_wasm_file differs from what this value must emit: {}", i, o, life::bytes_diff(want, f)));
                                    break 'steps;
                                }
                            }
                            expect = Some((f.clone(), "emit_repeatable"));
                        }
                    }
                    emits_on_value += 1;
                }
                StepOut::Reparsed { emitted, ok, .. } => {
                    if let Some((want, o)) = &expect {
                        comparisons += 1;
                        if emitted != want {
                            out.failure = fail(o, format!("step {} (emit for re-parse; {}): {}", i, o, life::bytes_diff(want, emitted)));
                            break 'steps;
                        }
                    }
                    if !*ok {
                        out.failure = fail("reparse_fixpoint", format!("step {}: walrus rejected its own output", i));
                        break 'steps;
                    }
                    // the new value was parsed from walrus's own output: it must emit exactly those bytes
                    expect = Some((emitted.clone(), "reparse_fixpoint"));
                    // ... except where the output came from an API EDIT and the re-parse legitimately normalises it:
                    // the synthetic-names switch names the anonymous items the edit built, and walrus's parser
                    // drops unreachable instructions (an edit can put instructions behind a terminator)
                    let edited_before = case.ops[..i.min(case.ops.len())].iter().any(|o| matches!(o, Op::Edit(_)));
                    // ... and every parse records walrus itself in the producers section, replacing a `walrus` entry an
                    // edit put there (C14's subject)
                    let producers_edited = case.ops[..i.min(case.ops.len())].iter().any(|o| matches!(o, Op::Edit(Edit::Producers { .. })));
                    if edited_before && (case.cfg.synthetic || producers_edited || has_dead_code(emitted)) {
                        out.hit("reparse_after_edit_not_comparable");
                        expect = None;
                    } else if edited_before {
                        out.hit("reparse_fixpoint_after_api_edit");
                    }
                    if first_mutation.map(|fm| i > fm).unwrap_or(false) {
                        out.hit("reparse_fixpoint_after_gc_or_edit");
                    }
                    values += 1;
                    emits_on_value = 0;
                }
                StepOut::Query { .. } | StepOut::Ambient | StepOut::Gc | StepOut::Custom { .. } | StepOut::Edit { .. } => {}
            }
        }
        if let (Some(_), None, false) = (first_mutation, &out.failure, has_reparse) {
            // "emitting (and querying) alters nothing": the same mutations without any emit / query in between
            let last_emit = t.steps.iter().rev().find_map(|s| if let StepOut::Emit { bytes } = s { Some(bytes) } else { None });
            let completed = t.steps.len() == case.ops.len() + 1 && !t.steps.iter().any(|s| matches!(s, StepOut::Panic { .. } | StepOut::Skipped));
            if let (Some(last), true) = (last_emit, completed) {
                let mut pure: Vec<Op> = case.ops.iter().filter(|o| !matches!(o, Op::Emit | Op::EmitFile { .. } | Op::Query | Op::Reparse { .. } | Op::BurnArenas { .. } | Op::Unrelated { .. })).cloned().collect();
                pure.push(Op::Emit);
                let pr = life::run_ser(env, &input, &case.cfg, &pure, &Ambient { entropy: 0x5eed, arena_burn: 0, heap_pad: 0 }, tag ^ 1);
                match pr.transcript {
                    Some(tp) if tp.steps.len() == pure.len() + 1 && !tp.steps.iter().any(|s| matches!(s, StepOut::Panic { .. } | StepOut::Skipped)) => {
                        if let Some(StepOut::Emit { bytes }) = tp.steps.last() {
                            comparisons += 1;
                            out.hit("checked_emit_alters_nothing");
                            if bytes != last {
                                out.failure = fail(
                                    "emit_alters_nothing",
                                    format!("the last emit of the history differs from the emit of the same mutations made without any emit / query before it: {}", life::bytes_diff(bytes, last)),
                                );
                            }
                        }
                    }
                    _ => {
                        // the emit-free history panicked or stopped where the full one did not (or vice versa)
                        out.failure = fail("emit_alters_nothing", "the same mutations without the emits / queries in between do not complete, the full history does".to_string());
                    }
                }
            }
        }
        out.add("byte_comparisons", comparisons);
        if case.ambient.arena_burn >= 65536 {
            out.hit("arena_id_offset_ge_65536");
        }
        // the entropy seam is live: iteration order of a canary map on a thread with this run's entropy
        if case.ambient.entropy % 8 == 0 {
            if let Ok(c) = crate::simrt::run_plain(Some(case.ambient.entropy), 1 << 20, crate::simrt::hashmap_order_canary) {
                out.measures.push(("hashmap_iteration_orders", c));
            }
        }
        if comparisons >= 1 {
            out.distinct_key = prng::mix64(
                prng::mix64(prng::fnv(&input), case.cfg.mask() as u64),
                prng::mix64(prng::fnv(kinds.join(",").as_bytes()), prng::mix64(case.ambient.entropy, case.ambient.arena_burn as u64 * 4 + case.ambient.heap_pad as u64)),
            ) | 1;
            out.measures.push(("ambient_triples", prng::mix64(case.ambient.entropy, case.ambient.arena_burn as u64 * 4 + case.ambient.heap_pad as u64)));
        }
        out.sample = Some(json!({
            "input": case.input.source.chars().take(120).collect::<String>(), "input_bytes": input.len(), "cfg_mask": case.cfg.mask(),
            "ops": kinds, "ambient": case.ambient, "parallel_in_sim": case.par.is_some(), "pristine_process_reference": case.pristine_process,
        }));
        out
    }

    fn shrink(&self, case: &Value) -> Vec<Value> {
        let Ok(c) = serde_json::from_value::<Case>(case.clone()) else { return vec![] };
        let mut v: Vec<Case> = Vec::new();
        for i in 0..c.ops.len() {
            let mut d = c.clone();
            d.ops.remove(i);
            d.schedule = None;
            v.push(d);
        }
        for (i, op) in c.ops.iter().enumerate() {
            if matches!(op, Op::EmitFile { .. } | Op::Reparse { .. }) {
                let mut d = c.clone();
                d.ops[i] = Op::Emit;
                d.schedule = None;
                v.push(d);
            }
        }
        if c.par.is_some() {
            let mut d = c.clone();
            d.par = None;
            d.schedule = None;
            v.push(d);
        }
        if c.ambient.arena_burn != 0 || c.ambient.heap_pad != 0 {
            let mut d = c.clone();
            d.ambient.arena_burn = 0;
            d.ambient.heap_pad = 0;
            v.push(d);
        }
        if c.pristine_process {
            let mut d = c.clone();
            d.pristine_process = false;
            v.push(d);
        }
        let m = c.cfg.mask();
        for bit in 0..9u32 {
            if m & (1 << bit) != 0 {
                let mut d = c.clone();
                d.cfg = CfgBits::from_mask(m & !(1 << bit));
                for op in d.ops.iter_mut() {
                    if let Op::Reparse { cfg } = op {
                        *cfg = d.cfg.clone();
                    }
                }
                d.schedule = None;
                v.push(d);
            }
        }
        let bytes = inputs::bytes_of(&c.input);
        if let Some(secs) = crate::wasmsplit::split(&bytes).filter(|_| !c.cfg.dwarf) {
            for s in secs.iter().rev() {
                let mut b = bytes[..s.range.start].to_vec();
                b.extend_from_slice(&bytes[s.range.end..]);
                if crate::validator::validate(&b, false).is_ok() {
                    let mut d = c.clone();
                    d.input = inputs::input_ref("shrunk", &b);
                    d.schedule = None;
                    v.push(d);
                }
            }
        }
        v.into_iter().map(|d| serde_json::to_value(d).unwrap()).collect()
    }

    fn rule(&self) -> String {
        "one case = (valid module, switch vector, history over emit / file emit with I/O fault / read-only query / arena burn / unrelated parse+emit / re-parse-own-output, ambient (entropy, arena-counter offset, heap padding), optional simulated schedule on the parallel build, reference from a pristine process or a fresh fixed-entropy thread); \
         non-trivial = at least one byte-for-byte comparison against the reference was made; distinct = distinct (input digest, switch vector, operation-kind sequence, ambient triple)"
            .to_string()
    }
    fn assumptions(&self) -> Vec<String> {
        vec![
            "one machine, one toolchain, one target: 'across processes' means processes of this build under every entropy / counter / address / schedule perturbation the simulator owns".into(),
            "heap-address perturbation is by seeded padding allocations held during the run plus ASLR across worker processes, not by a custom global allocator".into(),
            "DWARF generation only on inputs without .debug sections (where it must be a no-op) until synthesised well-formed DWARF is supplied".into(),
        ]
    }
    fn components(&self) -> Value {
        json!({ "real": ["walrus (serial build)", "walrus (parallel build, in a third of the runs)", "id-arena global counter", "std RandomState via seeded getrandom", "rayon iterators", "std::fs"], "stub": ["rayon-core (simulated)", "getrandom (seeded entropy)", "log::Log (scheduling point)"] })
    }
}
