//! Driver / worker plumbing shared by every claimed property: seeded run
//! planning, sharding over worker processes with crash attribution and a
//! watchdog, aggregation, minimisation, replay files, known findings, evidence.

use crate::prng::{self, Rng};
use serde::{Deserialize, Serialize};
use serde_json::{json, Value};
use std::collections::{BTreeMap, BTreeSet};
use std::io::{BufRead, BufReader, Write};
use std::path::{Path, PathBuf};
use std::process::{Command, Stdio};
use std::sync::mpsc;
use std::time::{Duration, Instant};

pub const VERIF_ROOT: &str = "/verif";
/// stop sampling once this many failing runs have been collected
pub const EARLY_STOP_FAILURES: usize = 60;
/// the batch stops after this many watchdog kills
pub const MAX_WATCHDOG_KILLS: u64 = 4;

#[derive(Clone, Copy, Debug, PartialEq, Eq)]
pub enum Tier {
    Quick,
    Thorough,
}

impl Tier {
    pub fn name(&self) -> &'static str {
        match self {
            Tier::Quick => "quick",
            Tier::Thorough => "thorough",
        }
    }
}

pub struct Env {
    pub corpus: Vec<crate::corpus::Input>,
    /// small valid corpus modules used as "unrelated work"
    pub unrelated: Vec<Vec<u8>>,
    pub scratch: PathBuf,
    pub verif_seed: u64,
    pub tier: Tier,
}

#[derive(Serialize, Deserialize, Clone, Debug)]
pub struct Failure {
    /// stable id of the assertion that failed
    pub oracle: String,
    /// human-readable detail; never contains addresses or arena numbers
    pub detail: String,
    /// the fully materialised case, including the recorded schedule if any
    pub case: Value,
}

#[derive(Default)]
pub struct Outcome {
    /// digest of everything observable about the run (determinism self-check)
    pub digest: u64,
    /// key for distinct_nontrivial (0 = trivial by the property's rule)
    pub distinct_key: u64,
    /// extra distinct-measure keys (e.g. interleaving hashes), by measure name
    pub measures: Vec<(&'static str, u64)>,
    pub reach: Vec<(String, u64)>,
    pub failure: Option<Failure>,
    /// harness problems (never violations): generator mismatch, replay divergence, harness limits
    pub harness_error: Option<String>,
    pub sample: Option<Value>,
    /// (worker processes) the run got stuck in the simulator and tainted this process: restart a fresh worker
    /// at this run with this preemption level (see simrt::TAINTED)
    pub respawn_at_level: Option<u8>,
}

impl Outcome {
    pub fn hit(&mut self, probe: &str) {
        self.add(probe, 1);
    }
    pub fn add(&mut self, probe: &str, n: u64) {
        if let Some(e) = self.reach.iter_mut().find(|(k, _)| k == probe) {
            e.1 += n;
        } else {
            self.reach.push((probe.to_string(), n));
        }
    }
}

pub trait Prop: Sync {
    fn id(&self) -> &'static str;
    fn level(&self) -> &'static str;
    fn engine(&self) -> &'static str;
    fn runs(&self, tier: Tier) -> u64;
    /// Materialise run `index` from its seed: every choice the run will make.
    fn plan(&self, env: &Env, index: u64, rng: &mut Rng) -> Value;
    /// Execute a materialised case against the real code and evaluate the oracles.
    fn execute(&self, env: &Env, case: &Value) -> Outcome;
    /// Smaller / simpler variants of a failing case, most aggressive first.
    fn shrink(&self, case: &Value) -> Vec<Value>;
    fn rule(&self) -> String;
    fn assumptions(&self) -> Vec<String>;
    fn components(&self) -> Value;
    fn simulated_time(&self) -> String {
        "none: walrus reads no clock and has no timers; logical steps = scheduler decisions / operations".to_string()
    }
    /// one-off exhaustive / fixed legs run by the driver process itself (e.g. all 512 switch vectors)
    fn extra_runs(&self, _tier: Tier) -> u64 {
        0
    }
    /// per-process set-up of a worker (resource limits)
    fn worker_init(&self) {}
    /// whether a crash (signal) of the worker is attributable to the code under test
    fn crash_is_violation(&self) -> bool {
        false
    }
}

// ---------------------------------------------------------------------------
// known findings

#[derive(Serialize, Deserialize, Clone, Debug)]
pub struct Finding {
    /// "known" suppresses the matching violation (KNOWN-FINDING line); "fixed" suppresses nothing
    pub status: String,
    pub property: String,
    pub oracle: String,
    /// all of these must occur in the failure detail for the entry to match
    #[serde(default)]
    pub detail_contains: Vec<String>,
    pub what: String,
    #[serde(default)]
    pub commit: String,
}

pub fn load_findings() -> Vec<Finding> {
    let p = Path::new(VERIF_ROOT).join("known_findings.json");
    match std::fs::read_to_string(&p) {
        Ok(s) => {
            let v: Value = serde_json::from_str(&s).expect("known_findings.json is not JSON");
            serde_json::from_value(v["findings"].clone()).expect("known_findings.json: bad `findings`")
        }
        Err(_) => Vec::new(),
    }
}

pub fn matches_known<'a>(findings: &'a [Finding], prop: &str, f: &Failure) -> Option<&'a Finding> {
    findings.iter().find(|k| {
        k.status == "known" && k.property == prop && k.oracle == f.oracle && k.detail_contains.iter().all(|d| f.detail.contains(d))
    })
}

// ---------------------------------------------------------------------------
// worker

#[derive(Serialize, Deserialize, Default, Clone, Debug)]
pub struct Summary {
    pub evaluations: u64,
    pub reach: BTreeMap<String, u64>,
    pub distinct: Vec<u64>,
    pub measures: BTreeMap<String, Vec<u64>>,
    pub digests: Vec<(u64, u64)>,
    pub samples: Vec<Value>,
    pub harness_errors: Vec<String>,
}

pub fn make_env(verif_seed: u64, tier: Tier, tag: &str) -> Env {
    let corpus = crate::corpus::load();
    let unrelated: Vec<Vec<u8>> = corpus
        .iter()
        .filter(|c| c.bytes.len() < 2000 && crate::validator::validate(&c.bytes, false).is_ok())
        .map(|c| c.bytes.clone())
        .collect();
    let scratch = Path::new(VERIF_ROOT).join("work").join(format!("{}-{}", tag, std::process::id()));
    std::fs::create_dir_all(&scratch).expect("create scratch dir");
    Env { corpus, unrelated, scratch, verif_seed, tier }
}

pub fn run_one(prop: &dyn Prop, env: &Env, index: u64) -> (Value, Outcome) {
    let seed = prng::run_seed(env.verif_seed, prop.id(), index);
    let mut rng = Rng::new(seed);
    let mut case = prop.plan(env, index, &mut rng);
    if let Some(o) = case.as_object_mut() {
        o.insert("run_index".into(), json!(index));
        o.insert("run_seed".into(), json!(format!("{:#018x}", seed)));
    }
    let out = prop.execute(env, &case);
    (case, out)
}

/// Worker process: runs indices from, from+step, ... < to; prints JSON lines.
pub fn worker_main(prop: &dyn Prop, env: &Env, from: u64, to: u64, step: u64, progress: &Path, keep_digests: bool, first_level: u8) {
    prop.worker_init();
    crate::simrt::set_respawn_mode(true);
    crate::simrt::set_start_level(first_level);
    let stdout = std::io::stdout();
    let mut sum = Summary::default();
    let mut distinct: BTreeSet<u64> = BTreeSet::new();
    let mut measures: BTreeMap<String, BTreeSet<u64>> = BTreeMap::new();
    let mut pf = std::fs::OpenOptions::new().create(true).write(true).truncate(true).open(progress).expect("progress file");
    let mut i = from;
    let mut since_flush = 0;
    while i < to {
        {
            use std::os::unix::fs::FileExt;
            let _ = pf.write_all_at(&i.to_le_bytes(), 0);
        }
        let (_case, out) = run_one(prop, env, i);
        crate::simrt::set_start_level(0);
        if let Some(level) = out.respawn_at_level {
            // this process is tainted (a leaked thread may hold a process-wide lock): hand the run back
            flush_summary(&mut sum, &mut distinct, &mut measures);
            let mut lock = stdout.lock();
            let _ = writeln!(lock, "{}", json!({"t": "stuck", "index": i, "level": level}));
            let _ = lock.flush();
            std::process::exit(0);
        }
        sum.evaluations += 1;
        for (k, v) in &out.reach {
            *sum.reach.entry(k.clone()).or_insert(0) += v;
        }
        if out.distinct_key != 0 {
            distinct.insert(out.distinct_key);
        }
        for (m, k) in &out.measures {
            measures.entry(m.to_string()).or_default().insert(*k);
        }
        if keep_digests {
            sum.digests.push((i, out.digest));
        }
        if let Some(s) = out.sample {
            if sum.samples.len() < 2 {
                sum.samples.push(s);
            }
        }
        if let Some(h) = out.harness_error {
            if sum.harness_errors.len() < 20 {
                sum.harness_errors.push(format!("run {}: {}", i, h));
            }
        }
        if let Some(f) = out.failure {
            let line = json!({"t": "fail", "index": i, "failure": f, "from": from, "step": step});
            let mut lock = stdout.lock();
            let _ = writeln!(lock, "{}", line);
            let _ = lock.flush();
            // (the driver may stop the batch early on many failures: keep its counters current)
            since_flush = 500;
        }
        if crate::simrt::tainted() {
            // A run was abandoned with its threads parked (stuck at the coarsest level: reported above as a
            // harness error; or a deadlock of the code under test: reported above as a failure).  A parked
            // thread may hold a process-wide lock of the code under test, so nothing more runs in this process.
            flush_summary(&mut sum, &mut distinct, &mut measures);
            let mut lock = stdout.lock();
            let _ = writeln!(lock, "{}", json!({"t": "stuck", "index": i + step, "level": 0}));
            let _ = lock.flush();
            std::process::exit(0);
        }
        since_flush += 1;
        if since_flush >= 500 {
            flush_summary(&mut sum, &mut distinct, &mut measures);
            since_flush = 0;
        }
        i += step;
    }
    {
        use std::os::unix::fs::FileExt;
        let _ = pf.write_all_at(&u64::MAX.to_le_bytes(), 0);
    }
    let _ = pf.flush();
    flush_summary(&mut sum, &mut distinct, &mut measures);
    let mut lock = stdout.lock();
    let _ = writeln!(lock, "{}", json!({"t": "done"}));
    let _ = lock.flush();
}

fn flush_summary(sum: &mut Summary, distinct: &mut BTreeSet<u64>, measures: &mut BTreeMap<String, BTreeSet<u64>>) {
    sum.distinct = distinct.iter().copied().collect();
    distinct.clear();
    sum.measures = measures.iter().map(|(k, v)| (k.clone(), v.iter().copied().collect())).collect();
    measures.clear();
    let line = json!({"t": "sum", "sum": sum});
    let stdout = std::io::stdout();
    let mut lock = stdout.lock();
    let _ = writeln!(lock, "{}", line);
    let _ = lock.flush();
    *sum = Summary::default();
}

// ---------------------------------------------------------------------------
// driver

pub struct DriverOpts {
    pub tier: Tier,
    pub verif_seed: u64,
    pub workers: usize,
    pub runs_override: Option<u64>,
    pub watchdog: Duration,
    pub minimise_budget: Duration,
    pub keep_digests: bool,
    pub write_evidence: bool,
}

enum Msg {
    Line(usize, String),
    Eof(usize),
}

struct WorkerSlot {
    child: std::process::Child,
    progress: PathBuf,
    offset: u64,
    last_progress: u64,
    last_change: Instant,
    done: bool,
    eof: bool,
    /// the worker handed a stuck run back: (run index, preemption level to restart at)
    stuck: Option<(u64, u8)>,
    /// the driver's watchdog killed this worker (its current run made no progress)
    watchdog_killed: bool,
}

#[allow(clippy::too_many_arguments)]
fn spawn_worker(prop_id: &str, opts: &DriverOpts, from: u64, to: u64, step: u64, widx: usize, tx: &mpsc::Sender<Msg>, workdir: &Path, first_level: u8) -> WorkerSlot {
    let progress = workdir.join(format!("progress-{}-{}-{}", widx, from, first_level));
    let exe = std::env::current_exe().expect("current_exe");
    let mut cmd = Command::new(exe);
    cmd.arg("worker")
        .arg(prop_id)
        .arg("--tier")
        .arg(opts.tier.name())
        .arg("--seed")
        .arg(opts.verif_seed.to_string())
        .arg("--from")
        .arg(from.to_string())
        .arg("--to")
        .arg(to.to_string())
        .arg("--step")
        .arg(step.to_string())
        .arg("--progress")
        .arg(&progress)
        .arg("--first-level")
        .arg(first_level.to_string());
    if opts.keep_digests {
        cmd.arg("--digests");
    }
    // scrubbed, fixed environment: the process boundary is a seam too
    cmd.env_clear();
    cmd.env("PATH", "/usr/bin:/bin");
    cmd.env("WALRUS_DST_WORKER", widx.to_string());
    if let Ok(r) = std::env::var("WALRUS_REPO") {
        cmd.env("WALRUS_REPO", r);
    }
    cmd.stdin(Stdio::null()).stdout(Stdio::piped()).stderr(Stdio::null());
    let mut child = cmd.spawn().expect("spawn worker");
    let out = child.stdout.take().unwrap();
    let tx = tx.clone();
    std::thread::spawn(move || {
        let r = BufReader::new(out);
        for line in r.lines() {
            match line {
                Ok(l) => {
                    if tx.send(Msg::Line(widx, l)).is_err() {
                        return;
                    }
                }
                Err(_) => break,
            }
        }
        let _ = tx.send(Msg::Eof(widx));
    });
    WorkerSlot { child, progress, offset: from, last_progress: u64::MAX - 1, last_change: Instant::now(), done: false, eof: false, stuck: None, watchdog_killed: false }
}

fn read_progress(p: &Path) -> Option<u64> {
    let b = std::fs::read(p).ok()?;
    if b.len() < 8 {
        return None;
    }
    Some(u64::from_le_bytes(b[..8].try_into().unwrap()))
}

pub struct Aggregate {
    pub evaluations: u64,
    pub reach: BTreeMap<String, u64>,
    pub distinct: BTreeSet<u64>,
    pub measures: BTreeMap<String, BTreeSet<u64>>,
    pub digests: BTreeMap<u64, u64>,
    pub samples: Vec<Value>,
    pub failures: Vec<(u64, Failure)>,
    /// run index of a failure -> (first index, stride) of the worker PROCESS that executed it: the runs that
    /// process had executed before (process-wide state of the code under test is part of the case)
    pub process_of: BTreeMap<u64, (u64, u64)>,
    pub harness_errors: Vec<String>,
    pub crashes: u64,
    pub timeouts: u64,
    pub timeout_candidates: Vec<String>,
}

/// Run indices 0..n over worker processes.
pub fn run_batch(prop: &dyn Prop, opts: &DriverOpts, n: u64) -> Aggregate {
    let workdir = Path::new(VERIF_ROOT).join("work").join(format!("drv-{}-{}", prop.id(), std::process::id()));
    std::fs::create_dir_all(&workdir).expect("workdir");
    let (tx, rx) = mpsc::channel();
    let k = opts.workers.max(1).min(n.max(1) as usize);
    let mut slots: Vec<WorkerSlot> = Vec::new();
    for w in 0..k {
        slots.push(spawn_worker(prop.id(), opts, w as u64, n, k as u64, w, &tx, &workdir, 0));
    }
    let mut agg = Aggregate {
        evaluations: 0,
        reach: BTreeMap::new(),
        distinct: BTreeSet::new(),
        measures: BTreeMap::new(),
        digests: BTreeMap::new(),
        samples: Vec::new(),
        failures: Vec::new(),
        process_of: BTreeMap::new(),
        harness_errors: Vec::new(),
        crashes: 0,
        timeouts: 0,
        timeout_candidates: Vec::new(),
    };
    let mut stopping = false;
    let mut stuck_respawns = 0u64;
    loop {
        if slots.iter().all(|s| s.eof) {
            break;
        }
        match rx.recv_timeout(Duration::from_millis(500)) {
            Ok(Msg::Line(w, l)) => {
                let Ok(v) = serde_json::from_str::<Value>(&l) else { continue };
                match v["t"].as_str() {
                    Some("fail") => {
                        let idx = v["index"].as_u64().unwrap_or(0);
                        if let Ok(f) = serde_json::from_value::<Failure>(v["failure"].clone()) {
                            if agg.failures.len() < 200 {
                                agg.failures.push((idx, f));
                                if let (Some(a), Some(b)) = (v["from"].as_u64(), v["step"].as_u64()) {
                                    agg.process_of.insert(idx, (a, b));
                                }
                            }
                        }
                        // a tree this broken needs no further sampling: stop the batch early
                        if agg.failures.len() >= EARLY_STOP_FAILURES && !stopping {
                            stopping = true;
                            for s in slots.iter_mut() {
                                let _ = s.child.kill();
                                s.done = true;
                            }
                        }
                    }
                    Some("sum") => {
                        if let Ok(s) = serde_json::from_value::<Summary>(v["sum"].clone()) {
                            agg.evaluations += s.evaluations;
                            for (k, v) in s.reach {
                                *agg.reach.entry(k).or_insert(0) += v;
                            }
                            agg.distinct.extend(s.distinct);
                            for (m, ks) in s.measures {
                                agg.measures.entry(m).or_default().extend(ks);
                            }
                            for (i, d) in s.digests {
                                agg.digests.insert(i, d);
                            }
                            for smp in s.samples {
                                if agg.samples.len() < 4 {
                                    agg.samples.push(smp);
                                }
                            }
                            for h in s.harness_errors {
                                if agg.harness_errors.len() < 50 {
                                    agg.harness_errors.push(h);
                                }
                            }
                        }
                    }
                    Some("done") => slots[w].done = true,
                    Some("stuck") => {
                        slots[w].stuck = Some((v["index"].as_u64().unwrap_or(u64::MAX), v["level"].as_u64().unwrap_or(2) as u8));
                        stuck_respawns += 1;
                    }
                    _ => {}
                }
            }
            Ok(Msg::Eof(w)) => {
                let status = slots[w].child.wait().ok();
                if slots[w].done {
                    slots[w].eof = true;
                    continue;
                }
                if let Some((at, level)) = slots[w].stuck.take() {
                    // a run stuck in the simulator tainted that process: same run, coarser preemption, fresh process
                    if at < n && !stopping {
                        slots[w] = spawn_worker(prop.id(), opts, at, n, k as u64, w, &tx, &workdir, level);
                    } else {
                        slots[w].eof = true;
                    }
                    continue;
                }
                // the worker died mid-run: attribute to the run in progress
                let at = read_progress(&slots[w].progress);
                let sig = status.and_then(|s| {
                    use std::os::unix::process::ExitStatusExt;
                    s.signal()
                });
                agg.crashes += 1;
                match at {
                    Some(i) if i != u64::MAX => {
                        let seed = prng::run_seed(opts.verif_seed, prop.id(), i);
                        let desc = format!("worker died (signal {:?}, status {:?}) while executing run {}", sig, status, i);
                        if prop.crash_is_violation() {
                            // re-materialise the case in the driver (planning is pure) so it can be replayed
                            let env = make_env(opts.verif_seed, opts.tier, "plan");
                            let mut rng = Rng::new(seed);
                            let mut case = prop.plan(&env, i, &mut rng);
                            if let Some(o) = case.as_object_mut() {
                                o.insert("run_index".into(), json!(i));
                                o.insert("run_seed".into(), json!(format!("{:#018x}", seed)));
                            }
                            let _ = std::fs::remove_dir_all(&env.scratch);
                            let oracle = if slots[w].watchdog_killed { "timeout:no_progress".to_string() } else { format!("crash:signal{}", sig.unwrap_or(0)) };
                            let desc = if slots[w].watchdog_killed { format!("run {} made no progress for {:?} (killed by the watchdog)", i, opts.watchdog) } else { desc };
                            agg.failures.push((i, Failure { oracle, detail: desc, case }));
                        } else {
                            agg.harness_errors.push(desc);
                        }
                        let k = k as u64;
                        let next = i + k;
                        slots[w] = spawn_worker(prop.id(), opts, next, n, k, w, &tx, &workdir, 0);
                    }
                    _ => {
                        agg.harness_errors.push(format!("worker {} died without progress information (status {:?})", w, status));
                        slots[w].eof = true;
                    }
                }
            }
            Err(mpsc::RecvTimeoutError::Timeout) => {}
            Err(mpsc::RecvTimeoutError::Disconnected) => break,
        }
        // watchdog: a run that makes no progress for `watchdog` is killed and attributed
        for w in 0..slots.len() {
            if slots[w].eof || slots[w].done {
                continue;
            }
            let cur = read_progress(&slots[w].progress).unwrap_or(u64::MAX - 1);
            if cur != slots[w].last_progress {
                slots[w].last_progress = cur;
                slots[w].last_change = Instant::now();
            } else if slots[w].last_change.elapsed() > opts.watchdog && cur != u64::MAX {
                let _ = slots[w].child.kill();
                slots[w].watchdog_killed = true;
                agg.timeouts += 1;
                if agg.timeouts >= MAX_WATCHDOG_KILLS && !stopping {
                    // runs keep hanging: no point in waiting out the watchdog thousands of times
                    stopping = true;
                    agg.harness_errors.push(format!("{} runs made no progress for {:?} each: batch stopped early", agg.timeouts, opts.watchdog));
                    for s in slots.iter_mut() {
                        let _ = s.child.kill();
                        s.done = true;
                    }
                }
                // (a candidate only: believed, and reported as a violation, if the solo re-run confirms it)
                agg.timeout_candidates.push(format!("run {} made no progress for {:?}", cur, opts.watchdog));
                // Eof handling will attribute and restart
            }
        }
    }
    let _ = std::fs::remove_dir_all(&workdir);
    let _ = slots.iter().map(|s| s.offset).count();
    if stuck_respawns > 0 {
        *agg.reach.entry("worker_restarted_after_run_stuck_in_simulator".into()).or_insert(0) += stuck_respawns;
    }
    agg
}

// ---------------------------------------------------------------------------
// minimisation

/// Delta-debug a failing case while the SAME oracle keeps failing.
pub fn minimise(prop: &dyn Prop, env: &Env, first: &Failure, budget: Duration) -> (Failure, u32) {
    let t0 = Instant::now();
    let mut best = first.clone();
    let mut steps = 0;
    // never revisit a case: candidate generators need not be monotone
    let mut seen: BTreeSet<u64> = BTreeSet::new();
    let key = |v: &Value| prng::fnv(serde_json::to_string(v).unwrap().as_bytes());
    seen.insert(key(&best.case));
    'outer: loop {
        if t0.elapsed() > budget || steps >= 500 {
            break;
        }
        let cands = prop.shrink(&best.case);
        for c in cands {
            if t0.elapsed() > budget || crate::simrt::tainted() {
                // (tainted: an abandoned run left parked threads behind, possibly holding a process-wide lock
                // of the code under test; verdicts of further runs in THIS process would not be trustworthy)
                break 'outer;
            }
            if !seen.insert(key(&c)) {
                continue;
            }
            let out = prop.execute(env, &c);
            if let Some(f) = out.failure {
                if f.oracle == best.oracle {
                    best = f;
                    steps += 1;
                    continue 'outer;
                }
            }
        }
        break;
    }
    (best, steps)
}

pub fn signature(f: &Failure) -> String {
    format!("{}:{:016x}", f.oracle, prng::fnv(serde_json::to_string(&f.case).unwrap().as_bytes()))
}

pub fn write_replay(prop: &dyn Prop, env: &Env, f: &Failure, original: &Failure, shrink_steps: u32) -> PathBuf {
    write_replay_h(prop, env, f, original, shrink_steps, &[])
}

/// `history`: run indices to execute in the replaying process BEFORE the case (the failure depends on state the
/// code under test keeps across Modules in one process).
pub fn write_replay_h(prop: &dyn Prop, env: &Env, f: &Failure, original: &Failure, shrink_steps: u32, history: &[u64]) -> PathBuf {
    let dir = Path::new(VERIF_ROOT).join("replays");
    let _ = std::fs::create_dir_all(&dir);
    let sig = signature(f);
    let file = dir.join(format!("{}-{}.json", prop.id(), sig.replace(':', "-")));
    let v = json!({
        "format": 1,
        "property": prop.id(),
        "oracle": f.oracle,
        "signature": sig,
        "verif_seed": env.verif_seed,
        "engine": prop.engine(),
        "observed": { "detail": f.detail },
        "process_history": { "tier": env.tier.name(), "run_indices_executed_first_in_the_same_process": history },
        "case": f.case,
        "minimised_from": { "shrink_steps": shrink_steps, "original_case_bytes": serde_json::to_string(&original.case).unwrap().len(), "case_bytes": serde_json::to_string(&f.case).unwrap().len() },
    });
    std::fs::write(&file, serde_json::to_string_pretty(&v).unwrap()).expect("write replay");
    file
}

/// Replay a file in THIS process. Returns (failed?, oracle, detail).
pub fn replay_file(prop: &dyn Prop, env: &Env, path: &Path) -> Result<Option<Failure>, String> {
    let s = std::fs::read_to_string(path).map_err(|e| format!("cannot read {}: {}", path.display(), e))?;
    let v: Value = serde_json::from_str(&s).map_err(|e| format!("bad replay file: {}", e))?;
    if v["property"].as_str() != Some(prop.id()) {
        return Err(format!("replay file is for property {:?}", v["property"]));
    }
    // process history first: earlier runs of the same worker process, outcomes ignored
    if let Some(h) = v["process_history"]["run_indices_executed_first_in_the_same_process"].as_array() {
        if !h.is_empty() {
            let tier = if v["process_history"]["tier"].as_str() == Some("thorough") { Tier::Thorough } else { Tier::Quick };
            let henv = Env { corpus: env.corpus.clone(), unrelated: env.unrelated.clone(), scratch: env.scratch.clone(), verif_seed: v["verif_seed"].as_u64().unwrap_or(env.verif_seed), tier };
            for j in h.iter().filter_map(|x| x.as_u64()) {
                let _ = run_one(prop, &henv, j);
            }
        }
    }
    let out = prop.execute(env, &v["case"]);
    if let Some(h) = out.harness_error {
        return Err(format!("harness error during replay: {}", h));
    }
    Ok(out.failure)
}

/// Replay in a fresh process (used to confirm a minimised file before reporting).
pub fn replay_in_child(prop_id: &str, path: &Path, timeout: Duration) -> (Option<i32>, String) {
    let exe = std::env::current_exe().expect("current_exe");
    let mut cmd = Command::new(exe);
    cmd.arg("replay").arg(prop_id).arg(path);
    cmd.env_clear();
    cmd.env("PATH", "/usr/bin:/bin");
    // (a recorded crash / timeout is replayed in a grandchild: let the child give up, and reap it, before we do)
    cmd.env("WALRUS_DST_REPLAY_TIMEOUT", timeout.as_secs().saturating_sub(60).max(30).to_string());
    if let Ok(r) = std::env::var("WALRUS_REPO") {
        cmd.env("WALRUS_REPO", r);
    }
    cmd.stdin(Stdio::null()).stdout(Stdio::piped()).stderr(Stdio::null());
    let mut child = match cmd.spawn() {
        Ok(c) => c,
        Err(e) => return (None, format!("spawn failed: {}", e)),
    };
    let t0 = Instant::now();
    loop {
        match child.try_wait() {
            Ok(Some(st)) => {
                let mut out = String::new();
                if let Some(mut o) = child.stdout.take() {
                    use std::io::Read;
                    let _ = o.read_to_string(&mut out);
                }
                use std::os::unix::process::ExitStatusExt;
                let code = st.code().or_else(|| st.signal().map(|s| 128 + s));
                return (code, out);
            }
            Ok(None) => {
                if t0.elapsed() > timeout {
                    let _ = child.kill();
                    let _ = child.wait();
                    return (Some(124), "timeout".into());
                }
                std::thread::sleep(Duration::from_millis(20));
            }
            Err(e) => return (None, format!("wait failed: {}", e)),
        }
    }
}

// ---------------------------------------------------------------------------
// the check command

pub fn check_main(prop: &dyn Prop, opts: &DriverOpts, extra: &dyn Fn(&Env, &mut Aggregate)) -> i32 {
    let t0 = Instant::now();
    let n = opts.runs_override.unwrap_or_else(|| prop.runs(opts.tier));
    println!("walrus-dst {} tier={} VERIF_SEED={} runs={} workers={}", prop.id(), opts.tier.name(), opts.verif_seed, n, opts.workers);
    let mut agg = run_batch(prop, opts, n);
    let env = make_env(opts.verif_seed, opts.tier, "drv");
    extra(&env, &mut agg);

    // determinism self-check: a slice of runs re-executed in this (different) process
    let mut det_checked = 0u64;
    let mut det_mismatch = 0u64;
    if opts.keep_digests {
        let slice: Vec<u64> = agg.digests.keys().copied().take(64).collect();
        for i in slice {
            // (runs of this batch hung: nothing is executed in the driver process itself, which has no watchdog)
            if crate::simrt::tainted() || agg.timeouts > 0 {
                break;
            }
            let (_c, out) = run_one(prop, &env, i);
            det_checked += 1;
            if Some(&out.digest) != agg.digests.get(&i) {
                det_mismatch += 1;
                agg.harness_errors.push(format!("NONDETERMINISM run {} digest differs between worker and driver process", i));
            }
        }
    }

    let findings = load_findings();
    // a reported crash / hang is confirmed by a solo replay in a fresh process with 1.5x the watchdog's patience
    let confirm_limit = opts.watchdog.mul_f32(1.5).max(Duration::from_secs(90));
    let mut exit = 0;
    let mut violations = 0u64;
    let mut known_lines: BTreeSet<String> = BTreeSet::new();
    let mut reported: BTreeSet<String> = BTreeSet::new();
    let mut violation_records = Vec::new();
    // group by oracle + coarse detail so one defect is minimised once
    agg.failures.sort_by_key(|(i, _)| *i);
    for (idx, f) in &agg.failures {
        if let Some(k) = matches_known(&findings, prop.id(), f) {
            known_lines.insert(format!("KNOWN-FINDING: property={} {}", prop.id(), k.what));
            continue;
        }
        let group = format!("{}|{}", f.oracle, f.detail.chars().take(60).collect::<String>());
        if reported.contains(&group) || reported.len() >= 3 {
            violations += 1;
            continue;
        }
        reported.insert(group);
        violations += 1;
        let is_crash = f.oracle.starts_with("crash:") || f.oracle.starts_with("timeout");
        let (min, steps) = if is_crash || agg.timeouts > 0 { (f.clone(), 0) } else { minimise(prop, &env, f, opts.minimise_budget) };
        // a minimised failure may turn out to be a known finding
        if let Some(k) = matches_known(&findings, prop.id(), &min) {
            known_lines.insert(format!("KNOWN-FINDING: property={} {}", prop.id(), k.what));
            violations -= 1;
            continue;
        }
        let path = write_replay(prop, &env, &min, f, steps);
        // confirm in a fresh process; fall back to the unminimised case if the minimised one does not reproduce
        let (code, out) = replay_in_child(prop.id(), &path, confirm_limit);
        let mut final_path = path.clone();
        // (a recorded crash / timeout is replayed in a grandchild: exit 1 with a crash:/timeout: oracle line)
        let confirmed = code == Some(1) && (out.contains(&format!("oracle={}", min.oracle)) || (is_crash && (out.contains("oracle=crash:") || out.contains("oracle=timeout:"))));
        let crash_confirmed = is_crash && matches!(code, Some(c) if c >= 128 || c == 124);
        if !(confirmed || crash_confirmed) {
            let p2 = write_replay(prop, &env, f, f, 0);
            let (code2, out2) = replay_in_child(prop.id(), &p2, confirm_limit);
            let ok2 = (code2 == Some(1) && (out2.contains(&format!("oracle={}", f.oracle)) || (is_crash && (out2.contains("oracle=crash:") || out2.contains("oracle=timeout:"))))) || (is_crash && matches!(code2, Some(c) if c >= 128 || c == 124));
            if ok2 {
                final_path = p2;
            } else {
                // Not reproducible from the case alone: the failure may depend on state the code under test keeps
                // across Modules within one PROCESS.  Replay with the runs that worker process executed before it,
                // then cut that history down (each attempt in a fresh process).
                let mut found: Option<PathBuf> = None;
                if let (false, Some(&(pfrom, pstep))) = (is_crash, agg.process_of.get(idx)) {
                    let full: Vec<u64> = (0..).map(|k| pfrom + k * pstep).take_while(|j| j < idx).collect();
                    let reproduces = |h: &[u64]| -> Option<PathBuf> {
                        let p = write_replay_h(prop, &env, f, f, 0, h);
                        let (c, o) = replay_in_child(prop.id(), &p, confirm_limit);
                        if c == Some(1) && o.contains(&format!("oracle={}", f.oracle)) {
                            Some(p)
                        } else {
                            None
                        }
                    };
                    if !full.is_empty() {
                        if let Some(p) = reproduces(&full) {
                            found = Some(p);
                            let mut hist = full.clone();
                            let t0 = Instant::now();
                            // single predecessors first (the usual case: one earlier module poisoned the state)
                            for j in full.iter().rev().take(64) {
                                if t0.elapsed() > opts.minimise_budget * 2 {
                                    break;
                                }
                                if let Some(p) = reproduces(&[*j]) {
                                    hist = vec![*j];
                                    found = Some(p);
                                    break;
                                }
                            }
                            // otherwise halve while it still reproduces
                            while hist.len() > 1 && t0.elapsed() < opts.minimise_budget * 2 {
                                let half = hist[hist.len() / 2..].to_vec();
                                match reproduces(&half) {
                                    Some(p) => {
                                        hist = half;
                                        found = Some(p);
                                    }
                                    None => break,
                                }
                            }
                            // (the file on disk is the last one written: rewrite the accepted history)
                            found = Some(write_replay_h(prop, &env, f, f, 0, &hist));
                            agg.reach.entry("violations_reproduced_only_with_process_history".into()).and_modify(|x| *x += 1).or_insert(1);
                        }
                    }
                }
                match found {
                    Some(p) => final_path = p,
                    None => {
                        agg.harness_errors.push(format!("REPLAY-MISMATCH run {} oracle {}: replay exit {:?}/{:?}; report withheld", idx, f.oracle, code, code2));
                        violations -= 1;
                        continue;
                    }
                }
            }
        }
        println!("VIOLATION property={} replay={}", prop.id(), final_path.display());
        println!("  run_index={} oracle={} detail={}", idx, min.oracle, min.detail.chars().take(400).collect::<String>());
        violation_records.push(json!({"run_index": idx, "oracle": min.oracle, "detail": min.detail, "replay": final_path.display().to_string(), "shrink_steps": steps}));
        exit = 1;
    }
    for l in &known_lines {
        println!("{}", l);
    }
    for t in agg.timeout_candidates.iter().take(5) {
        println!("NOTE: watchdog: {}", t);
    }
    let wall = t0.elapsed().as_secs_f64();
    if !agg.harness_errors.is_empty() {
        for h in agg.harness_errors.iter().take(10) {
            eprintln!("HARNESS: {}", h);
        }
        if exit == 0 {
            exit = 2;
        }
    }
    if agg.evaluations == 0 && exit == 0 {
        eprintln!("HARNESS: no runs were executed");
        exit = 2;
    }
    if opts.write_evidence {
        let ev = evidence_json(prop, opts, &agg, wall, violations, &known_lines, det_checked, det_mismatch, &violation_records);
        let dir = Path::new(VERIF_ROOT).join("evidence");
        let _ = std::fs::create_dir_all(&dir);
        let p = dir.join(format!("{}.json", prop.id()));
        std::fs::write(&p, serde_json::to_string_pretty(&ev).unwrap()).expect("write evidence");
    }
    println!(
        "{} {}: {} runs, {} distinct non-trivial, {} violations, {} known findings, {:.1}s",
        prop.id(),
        if exit == 0 { "OK" } else if exit == 1 { "VIOLATED" } else { "HARNESS-ERROR" },
        agg.evaluations,
        agg.distinct.len(),
        violations,
        known_lines.len(),
        wall
    );
    let _ = std::fs::remove_dir_all(&env.scratch);
    exit
}

#[allow(clippy::too_many_arguments)]
fn evidence_json(
    prop: &dyn Prop,
    opts: &DriverOpts,
    agg: &Aggregate,
    wall: f64,
    violations: u64,
    known: &BTreeSet<String>,
    det_checked: u64,
    det_mismatch: u64,
    violation_records: &[Value],
) -> Value {
    let mut faults = serde_json::Map::new();
    let mut reach = serde_json::Map::new();
    for (k, v) in &agg.reach {
        if let Some(f) = k.strip_prefix("fault:") {
            faults.insert(f.to_string(), json!(v));
        } else {
            reach.insert(k.clone(), json!(v));
        }
    }
    let mut measures = serde_json::Map::new();
    for (k, v) in &agg.measures {
        measures.insert(format!("distinct_{}", k), json!(v.len()));
    }
    let samples: Vec<Value> = if agg.samples.is_empty() { vec![json!("no sample recorded")] } else { agg.samples.clone() };
    let mut coverage = json!({
        "evaluations": agg.evaluations,
        "distinct_nontrivial": agg.distinct.len(),
        "rule": prop.rule(),
        "samples": samples,
        "exhaustive": false,
        "runs_per_hour": if wall > 0.0 { (agg.evaluations as f64 / wall * 3600.0) as u64 } else { 0 },
        "seeds": { "verif_seed": opts.verif_seed, "first_run_index": 0, "last_run_index": agg.evaluations.saturating_sub(1), "derivation": "run_seed = mix(mix(mix(VERIF_SEED,'walrus'), fnv(property)), index)" },
        "simulated_time": prop.simulated_time(),
        "faults_fired": Value::Object(faults),
        "reach": Value::Object(reach),
        "components": prop.components(),
        "determinism_selfcheck": { "runs_reexecuted_in_other_process": det_checked, "mismatches": det_mismatch },
        "worker_crashes": agg.crashes,
        "watchdog_kills": agg.timeouts,
        "known_findings": known.iter().cloned().collect::<Vec<_>>(),
        "violation_records": violation_records,
        "harness_errors": agg.harness_errors.iter().take(10).cloned().collect::<Vec<_>>(),
        "engine": prop.engine(),
        "workers": opts.workers,
    });
    if let Some(o) = coverage.as_object_mut() {
        for (k, v) in measures {
            o.insert(k, v);
        }
        // results of secondary engines run by ./check before this process (native real pool, Miri)
        if let Ok(extra) = std::env::var("WALRUS_DST_EXTRA_EVIDENCE") {
            if let Ok(Value::Object(m)) = serde_json::from_str::<Value>(&extra) {
                for (k, v) in m {
                    o.insert(k, v);
                }
            }
        }
    }
    json!({
        "property_id": prop.id(),
        "tier": opts.tier.name(),
        "seed": opts.verif_seed,
        "level": prop.level(),
        "coverage": coverage,
        "assumptions": prop.assumptions(),
        "wall_s": wall,
        "violations": violations,
    })
}
