//! An observer that does not link walrus: LEB128 and a section splitter.
//! Used for inventories, custom-section conservation, metamorphic comparisons
//! and for placing storage faults inside a chosen structure.

use std::ops::Range;

pub fn read_leb_u32(b: &[u8], pos: usize) -> Option<(u32, usize)> {
    let mut result: u64 = 0;
    let mut shift = 0;
    let mut p = pos;
    loop {
        let byte = *b.get(p)?;
        p += 1;
        result |= ((byte & 0x7f) as u64) << shift;
        if byte & 0x80 == 0 {
            break;
        }
        shift += 7;
        if shift >= 35 {
            return None;
        }
    }
    if result > u32::MAX as u64 {
        return None;
    }
    Some((result as u32, p - pos))
}

pub fn write_leb_u32(mut v: u32, out: &mut Vec<u8>) {
    loop {
        let mut byte = (v & 0x7f) as u8;
        v >>= 7;
        if v != 0 {
            byte |= 0x80;
        }
        out.push(byte);
        if v == 0 {
            break;
        }
    }
}

pub fn leb_u32(v: u32) -> Vec<u8> {
    let mut o = Vec::new();
    write_leb_u32(v, &mut o);
    o
}

/// LEB of `v` padded to exactly `len` bytes (non-canonical but legal up to 5).
pub fn leb_u32_padded(mut v: u32, len: usize) -> Vec<u8> {
    let mut o = Vec::new();
    for i in 0..len {
        let mut byte = (v & 0x7f) as u8;
        v >>= 7;
        if i + 1 < len {
            byte |= 0x80;
        }
        o.push(byte);
    }
    o
}

#[derive(Clone, Debug, PartialEq, Eq)]
pub struct Section {
    pub id: u8,
    /// whole section including id and size
    pub range: Range<usize>,
    /// payload only
    pub payload: Range<usize>,
}

#[derive(Clone, Debug, PartialEq, Eq)]
pub struct CustomView<'a> {
    pub name: &'a [u8],
    pub data: &'a [u8],
}

/// Split a module into sections.  Returns None if the framing is broken
/// (the caller then treats the bytes as unstructured).
pub fn split(b: &[u8]) -> Option<Vec<Section>> {
    if b.len() < 8 || &b[0..4] != b"\0asm" {
        return None;
    }
    let mut out = Vec::new();
    let mut p = 8;
    while p < b.len() {
        let id = b[p];
        let (size, n) = read_leb_u32(b, p + 1)?;
        let start = p + 1 + n;
        let end = start.checked_add(size as usize)?;
        if end > b.len() {
            return None;
        }
        out.push(Section { id, range: p..end, payload: start..end });
        p = end;
    }
    Some(out)
}

pub fn custom_view<'a>(b: &'a [u8], s: &Section) -> Option<CustomView<'a>> {
    if s.id != 0 {
        return None;
    }
    let pl = &b[s.payload.clone()];
    let (nlen, n) = read_leb_u32(pl, 0)?;
    let nend = n.checked_add(nlen as usize)?;
    if nend > pl.len() {
        return None;
    }
    Some(CustomView { name: &pl[n..nend], data: &pl[nend..] })
}

pub fn custom_section_bytes(name: &[u8], data: &[u8]) -> Vec<u8> {
    let mut payload = leb_u32(name.len() as u32);
    payload.extend_from_slice(name);
    payload.extend_from_slice(data);
    let mut out = vec![0u8];
    write_leb_u32(payload.len() as u32, &mut out);
    out.extend_from_slice(&payload);
    out
}

/// The same section with its two length fields (section size, name length) written as LEBs padded by
/// `size_pad` / `name_pad` extra bytes (non-canonical but legal; capped at 5 bytes each).
pub fn custom_section_bytes_padded(name: &[u8], data: &[u8], size_pad: usize, name_pad: usize) -> Vec<u8> {
    let nl = leb_u32(name.len() as u32);
    let mut payload = leb_u32_padded(name.len() as u32, (nl.len() + name_pad).min(5));
    payload.extend_from_slice(name);
    payload.extend_from_slice(data);
    let sl = leb_u32(payload.len() as u32);
    let mut out = vec![0u8];
    out.extend_from_slice(&leb_u32_padded(payload.len() as u32, (sl.len() + size_pad).min(5)));
    out.extend_from_slice(&payload);
    out
}

/// (name, payload) of every custom section, in order.
pub fn customs(b: &[u8]) -> Option<Vec<(Vec<u8>, Vec<u8>)>> {
    let secs = split(b)?;
    let mut out = Vec::new();
    for s in &secs {
        if s.id == 0 {
            let v = custom_view(b, s)?;
            out.push((v.name.to_vec(), v.data.to_vec()));
        }
    }
    Some(out)
}

/// Is this custom-section name one walrus documents as interpreted?
/// (`name`, `producers`, and anything starting with `.debug`.)
pub fn interpreted_name(name: &[u8]) -> bool {
    name == b"name" || name == b"producers" || name.starts_with(b".debug")
}

/// Inventory used by metamorphic comparisons: (id, custom name or empty, bytes).
pub fn inventory(b: &[u8]) -> Option<Vec<(u8, Vec<u8>, Vec<u8>)>> {
    let secs = split(b)?;
    let mut out = Vec::new();
    for s in &secs {
        let name = if s.id == 0 { custom_view(b, s)?.name.to_vec() } else { Vec::new() };
        out.push((s.id, name, b[s.range.clone()].to_vec()));
    }
    Some(out)
}

/// Insert `section_bytes` (a complete section) before section number `at`
/// (0 = before the first section, n = after the last).
pub fn insert_section(b: &[u8], at: usize, section_bytes: &[u8]) -> Option<Vec<u8>> {
    let secs = split(b)?;
    let pos = if at >= secs.len() { b.len() } else { secs[at].range.start };
    let mut out = Vec::with_capacity(b.len() + section_bytes.len());
    out.extend_from_slice(&b[..pos]);
    out.extend_from_slice(section_bytes);
    out.extend_from_slice(&b[pos..]);
    Some(out)
}

pub fn hex(b: &[u8]) -> String {
    let mut s = String::with_capacity(b.len() * 2);
    for x in b {
        s.push_str(&format!("{:02x}", x));
    }
    s
}

pub fn unhex(s: &str) -> Option<Vec<u8>> {
    if s.len() % 2 != 0 {
        return None;
    }
    let mut out = Vec::with_capacity(s.len() / 2);
    let bytes = s.as_bytes();
    for i in (0..bytes.len()).step_by(2) {
        let h = (bytes[i] as char).to_digit(16)?;
        let l = (bytes[i + 1] as char).to_digit(16)?;
        out.push((h * 16 + l) as u8);
    }
    Some(out)
}
