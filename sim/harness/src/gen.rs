//! Seeded generator of wasm modules on `wasm-encoder` (independent of walrus),
//! over walrus's supported feature set.  Every module is checked against the
//! stand-alone validator by the caller (`validator.rs`); a generated module that
//! does not match its recipe's `valid` expectation is a harness bug and is
//! counted and skipped, never attributed to walrus.

use crate::prng::Rng;
use serde::{Deserialize, Serialize};
use wasm_encoder as we;
use wasm_encoder::{BlockType, HeapType, Instruction as I, MemArg, ValType as VT};

#[derive(Serialize, Deserialize, Clone, Debug, PartialEq, Eq)]
pub struct GenParams {
    pub seed: u64,
    pub n_funcs: u32,
    /// 0: tiny bodies, 1: equal medium bodies, 2: unequal (a few large, many small), 3: unequal with ONE huge
    /// body (several thousand statements: anything keyed on "big functions" must see one now and then)
    pub size_mode: u8,
    pub multi_memory: bool,
    pub memory64: bool,
    pub threads: bool,
    pub simd: bool,
    pub refs: bool,
    pub bulk: bool,
    pub multi_value: bool,
    pub tail_call: bool,
    /// 0 none, 1 full, 2 partial, 3 malformed, 4 well-formed but with broken references (out-of-range
    /// indices, local names for imported functions / for locals that do not exist)
    pub names: u8,
    /// 0 none, 1 well-formed, 2 well-formed with a prior walrus entry, 3 legal but unusual (a field with
    /// no values, one tool listed with two versions, empty version strings)
    pub producers: u8,
    pub n_customs: u32,
    /// number of function bodies that get a type error planted
    pub plant_errors: u32,
    /// force at least this many passive data segments / memory.init users
    pub passive_bias: bool,
    /// emit sections whose vector is empty (count 0) instead of omitting them
    #[serde(default)]
    pub empty_sections: bool,
    /// 0: data-segment users wherever the body generator puts them.  1-3: NO passive data segment and exactly
    /// one `data.drop` in the whole module, in the last (1), first (2) or a seeded (3) local function -- the
    /// DataCount section then hinges on finding that one user (walrus searches the functions for it)
    #[serde(default)]
    pub lone_data_user: u8,
}

impl GenParams {
    pub fn draw(rng: &mut Rng, max_funcs: u32) -> GenParams {
        let n_funcs = match rng.below(10) {
            0 => rng.range(0, 2) as u32,
            1..=3 => rng.range(1, 4) as u32,
            4..=6 => rng.range(4, 24) as u32,
            7..=8 => rng.range(24, 80.min(max_funcs as u64).max(24)) as u32,
            _ => rng.range(1, max_funcs.max(1) as u64) as u32,
        }
        .min(max_funcs.max(1));
        let zero_ok = n_funcs == 0;
        GenParams {
            seed: rng.u64(),
            n_funcs: if zero_ok { 0 } else { n_funcs.max(1) },
            size_mode: if rng.chance(1, 25) { 3 } else { rng.below(3) as u8 },
            multi_memory: rng.chance(1, 4),
            memory64: rng.chance(1, 5),
            threads: rng.chance(1, 5),
            simd: rng.chance(1, 3),
            refs: rng.chance(1, 2),
            bulk: rng.chance(1, 2),
            multi_value: rng.chance(1, 2),
            tail_call: rng.chance(1, 4),
            names: rng.below(5) as u8,
            producers: rng.below(4) as u8,
            n_customs: if rng.chance(1, 2) { 0 } else { rng.range(1, 6) as u32 },
            plant_errors: 0,
            passive_bias: rng.chance(1, 3),
            empty_sections: rng.chance(1, 8),
            lone_data_user: if rng.chance(1, 6) { 1 + rng.below(3) as u8 } else { 0 },
        }
    }
}

#[derive(Serialize, Deserialize, Clone, Debug, PartialEq, Eq, Default)]
pub struct Recipe {
    pub expect_valid: bool,
    pub needs_multi_memory: bool,
    pub needs_memory64: bool,
    pub needs_threads: bool,
    pub n_funcs: u32,
    pub n_imported_funcs: u32,
    pub planted_error_funcs: Vec<u32>,
    pub has_name_section: bool,
    pub has_producers: bool,
    pub has_prior_walrus: bool,
    pub n_unknown_customs: u32,
    pub passive_data: u32,
    pub data_users: u32,
}

pub struct Generated {
    pub bytes: Vec<u8>,
    pub recipe: Recipe,
}

#[derive(Clone, Debug)]
struct MemInfo {
    mem64: bool,
    shared: bool,
}

#[derive(Clone, Debug)]
struct GlobalInfo {
    ty: VT,
    mutable: bool,
    imported: bool,
}

fn ty_key(t: VT) -> usize {
    match t {
        VT::I32 => 0,
        VT::I64 => 1,
        VT::F32 => 2,
        VT::F64 => 3,
        VT::V128 => 4,
        _ => 5,
    }
}

#[derive(Clone)]
struct Env {
    /// every plain operator of the supported feature set (opzoo.rs), indexed by result type
    zoo: std::rc::Rc<Vec<crate::opzoo::Op>>,
    zoo_by_ret: std::rc::Rc<Vec<Vec<usize>>>,
    zoo_void: std::rc::Rc<Vec<usize>>,
    sigs: Vec<(Vec<VT>, Vec<VT>)>,
    funcs: Vec<u32>, // sig index per function (imports first)
    globals: Vec<GlobalInfo>,
    mems: Vec<MemInfo>,
    tables: Vec<bool>, // true = externref
    n_data: u32,
    passive_funcref_elems: Vec<u32>,
    declared_funcs: Vec<u32>,
    /// bodies must not use data segments on their own (lone_data_user)
    no_data_users: bool,
    p: GenParams,
}

const FUNCREF: VT = VT::Ref(we::RefType::FUNCREF);
const EXTERNREF: VT = VT::Ref(we::RefType::EXTERNREF);

fn is_num(t: VT) -> bool {
    matches!(t, VT::I32 | VT::I64 | VT::F32 | VT::F64)
}

struct Body<'e> {
    env: &'e Env,
    rng: Rng,
    locals: Vec<VT>,
    /// label stack: for each enclosing label, the types a `br` to it carries
    labels: Vec<Vec<VT>>,
    results: Vec<VT>,
    out: Vec<I<'static>>,
    budget: i64,
    data_users: u32,
    uses_atomics: bool,
}

impl<'e> Body<'e> {
    fn emit(&mut self, i: I<'static>) {
        self.out.push(i);
        self.budget -= 1;
    }

    fn val_types(&self) -> Vec<VT> {
        let mut v = vec![VT::I32, VT::I64, VT::F32, VT::F64];
        if self.env.p.simd {
            v.push(VT::V128);
        }
        if self.env.p.refs {
            v.push(FUNCREF);
            v.push(EXTERNREF);
        }
        v
    }

    fn memarg(&mut self, mem: usize, natural_log2: u32, atomic: bool) -> MemArg {
        let align = if atomic { natural_log2 } else { self.rng.range(0, natural_log2 as u64) as u32 };
        let offset = match self.rng.below(4) {
            0 => 0,
            1 => self.rng.below(64),
            2 => self.rng.below(1 << 16),
            // a 64-bit memory admits any 64-bit static offset
            _ if self.env.mems[mem].mem64 && self.rng.chance(1, 2) => *self.rng.pick(&[1u64 << 32, (1 << 32) + 7, u64::MAX, 1 << 40, u64::MAX / 3]),
            _ => self.rng.below(u32::MAX as u64),
        };
        MemArg { offset, align, memory_index: mem as u32 }
    }

    fn addr(&mut self, mem: usize, depth: u32) {
        let t = if self.env.mems[mem].mem64 { VT::I64 } else { VT::I32 };
        self.expr(t, depth + 1);
    }

    fn pick_mem(&mut self) -> Option<usize> {
        if self.env.mems.is_empty() {
            None
        } else {
            Some(self.rng.usize_below(self.env.mems.len()))
        }
    }

    fn pick_shared_mem(&mut self) -> Option<usize> {
        let v: Vec<usize> = self.env.mems.iter().enumerate().filter(|(_, m)| m.shared).map(|(i, _)| i).collect();
        if v.is_empty() {
            None
        } else {
            Some(*self.rng.pick(&v))
        }
    }

    fn konst(&mut self, t: VT) {
        match t {
            VT::I32 => {
                let v = match self.rng.below(5) {
                    0 => 0,
                    1 => -1,
                    2 => i32::MIN,
                    3 => self.rng.below(128) as i32,
                    _ => self.rng.u32() as i32,
                };
                self.emit(I::I32Const(v))
            }
            VT::I64 => {
                let v = match self.rng.below(5) {
                    0 => 0,
                    1 => -1,
                    2 => i64::MIN,
                    3 => self.rng.below(128) as i64,
                    _ => self.rng.u64() as i64,
                };
                self.emit(I::I64Const(v))
            }
            VT::F32 => {
                let bits = match self.rng.below(5) {
                    0 => 0,
                    1 => 0x7fc0_0001, // NaN with payload
                    2 => 0xff80_0000,
                    3 => 1.5f32.to_bits(),
                    _ => self.rng.u32(),
                };
                self.emit(I::F32Const(f32::from_bits(bits)))
            }
            VT::F64 => {
                let bits = match self.rng.below(5) {
                    0 => 0,
                    1 => 0x7ff8_0000_0000_0001,
                    2 => 0xfff0_0000_0000_0000,
                    3 => 2.25f64.to_bits(),
                    _ => self.rng.u64(),
                };
                self.emit(I::F64Const(f64::from_bits(bits)))
            }
            VT::V128 => {
                let v = ((self.rng.u64() as u128) << 64 | self.rng.u64() as u128) as i128;
                self.emit(I::V128Const(v))
            }
            VT::Ref(r) => {
                if r == we::RefType::FUNCREF {
                    if !self.env.declared_funcs.is_empty() && self.rng.bool() {
                        let f = *self.rng.pick(&self.env.declared_funcs);
                        self.emit(I::RefFunc(f));
                    } else {
                        self.emit(I::RefNull(HeapType::Abstract { shared: false, ty: we::AbstractHeapType::Func }))
                    }
                } else {
                    self.emit(I::RefNull(HeapType::Abstract { shared: false, ty: we::AbstractHeapType::Extern }))
                }
            }
        }
    }

    /// Push exactly one value of type `t`.
    fn expr(&mut self, t: VT, depth: u32) {
        if depth > 5 || self.budget <= 0 {
            return self.leaf(t);
        }
        let choice = self.rng.below(16);
        match choice {
            0..=2 => self.leaf(t),
            3..=5 if is_num(t) => self.binop(t, depth),
            6 if is_num(t) => self.unop(t, depth),
            7 if is_num(t) => self.convert(t, depth),
            8 if is_num(t) || t == VT::V128 => self.load(t, depth),
            9 => self.call_expr(t, depth),
            10 => {
                // block (result t) stmts; expr; [cond br_if 0] end
                self.emit(I::Block(BlockType::Result(t)));
                self.labels.push(vec![t]);
                self.stmts(2, depth + 1);
                self.expr(t, depth + 1);
                if self.rng.bool() {
                    self.expr(VT::I32, depth + 1);
                    self.emit(I::BrIf(0));
                }
                self.labels.pop();
                self.emit(I::End);
            }
            11 => {
                self.expr(VT::I32, depth + 1);
                self.emit(I::If(BlockType::Result(t)));
                self.labels.push(vec![t]);
                self.expr(t, depth + 1);
                self.emit(I::Else);
                self.expr(t, depth + 1);
                self.labels.pop();
                self.emit(I::End);
            }
            12 => {
                self.expr(t, depth + 1);
                self.expr(t, depth + 1);
                self.expr(VT::I32, depth + 1);
                if is_num(t) && self.rng.bool() {
                    self.emit(I::Select);
                } else if t == VT::V128 {
                    self.emit(I::Select);
                } else if self.env.p.refs {
                    self.emit(I::TypedSelect(t));
                } else {
                    self.emit(I::Select);
                }
            }
            13 => {
                // local.tee
                let cands: Vec<usize> = self.locals.iter().enumerate().filter(|(_, x)| **x == t).map(|(i, _)| i).collect();
                if cands.is_empty() {
                    self.leaf(t)
                } else {
                    let l = *self.rng.pick(&cands);
                    self.expr(t, depth + 1);
                    self.emit(I::LocalTee(l as u32));
                }
            }
            14 => self.special(t, depth),
            15 if ty_key(t) < 5 => self.zoo_expr(t, depth),
            _ => self.leaf(t),
        }
    }

    fn leaf(&mut self, t: VT) {
        let lc: Vec<usize> = self.locals.iter().enumerate().filter(|(_, x)| **x == t).map(|(i, _)| i).collect();
        let gc: Vec<usize> = self.env.globals.iter().enumerate().filter(|(_, g)| g.ty == t).map(|(i, _)| i).collect();
        match self.rng.below(3) {
            0 if !lc.is_empty() => {
                let l = *self.rng.pick(&lc);
                self.emit(I::LocalGet(l as u32))
            }
            1 if !gc.is_empty() => {
                let g = *self.rng.pick(&gc);
                self.emit(I::GlobalGet(g as u32))
            }
            _ => self.konst(t),
        }
    }

    fn binop(&mut self, t: VT, depth: u32) {
        // comparisons produce i32 from another operand type
        if t == VT::I32 && self.rng.chance(1, 3) {
            let ot = *self.rng.pick(&[VT::I32, VT::I64, VT::F32, VT::F64]);
            self.expr(ot, depth + 1);
            self.expr(ot, depth + 1);
            let op = match ot {
                VT::I32 => self.rng.pick(&[I::I32Eq, I::I32Ne, I::I32LtS, I::I32LtU, I::I32GtS, I::I32GeU, I::I32LeS]).clone(),
                VT::I64 => self.rng.pick(&[I::I64Eq, I::I64Ne, I::I64LtS, I::I64LtU, I::I64GtS, I::I64GeU, I::I64LeU]).clone(),
                VT::F32 => self.rng.pick(&[I::F32Eq, I::F32Ne, I::F32Lt, I::F32Gt, I::F32Le, I::F32Ge]).clone(),
                _ => self.rng.pick(&[I::F64Eq, I::F64Ne, I::F64Lt, I::F64Gt, I::F64Le, I::F64Ge]).clone(),
            };
            return self.emit(op);
        }
        self.expr(t, depth + 1);
        self.expr(t, depth + 1);
        let op = match t {
            VT::I32 => self.rng.pick(&[
                I::I32Add, I::I32Sub, I::I32Mul, I::I32DivS, I::I32DivU, I::I32RemS, I::I32RemU, I::I32And, I::I32Or, I::I32Xor,
                I::I32Shl, I::I32ShrS, I::I32ShrU, I::I32Rotl, I::I32Rotr,
            ]).clone(),
            VT::I64 => self.rng.pick(&[
                I::I64Add, I::I64Sub, I::I64Mul, I::I64DivS, I::I64DivU, I::I64RemS, I::I64RemU, I::I64And, I::I64Or, I::I64Xor,
                I::I64Shl, I::I64ShrS, I::I64ShrU, I::I64Rotl, I::I64Rotr,
            ]).clone(),
            VT::F32 => self.rng.pick(&[I::F32Add, I::F32Sub, I::F32Mul, I::F32Div, I::F32Min, I::F32Max, I::F32Copysign]).clone(),
            _ => self.rng.pick(&[I::F64Add, I::F64Sub, I::F64Mul, I::F64Div, I::F64Min, I::F64Max, I::F64Copysign]).clone(),
        };
        self.emit(op)
    }

    fn unop(&mut self, t: VT, depth: u32) {
        self.expr(t, depth + 1);
        let op = match t {
            VT::I32 => self.rng.pick(&[I::I32Clz, I::I32Ctz, I::I32Popcnt, I::I32Eqz, I::I32Extend8S, I::I32Extend16S]).clone(),
            VT::I64 => self.rng.pick(&[I::I64Clz, I::I64Ctz, I::I64Popcnt, I::I64Extend8S, I::I64Extend16S, I::I64Extend32S]).clone(),
            VT::F32 => self.rng.pick(&[I::F32Abs, I::F32Neg, I::F32Sqrt, I::F32Ceil, I::F32Floor, I::F32Trunc, I::F32Nearest]).clone(),
            _ => self.rng.pick(&[I::F64Abs, I::F64Neg, I::F64Sqrt, I::F64Ceil, I::F64Floor, I::F64Trunc, I::F64Nearest]).clone(),
        };
        self.emit(op)
    }

    fn convert(&mut self, t: VT, depth: u32) {
        let (src, op) = match t {
            VT::I32 => self.rng.pick(&[
                (VT::I64, I::I32WrapI64),
                (VT::F32, I::I32TruncF32S),
                (VT::F64, I::I32TruncF64U),
                (VT::F32, I::I32TruncSatF32S),
                (VT::F64, I::I32TruncSatF64U),
                (VT::F32, I::I32ReinterpretF32),
                (VT::I64, I::I64Eqz),
            ]).clone(),
            VT::I64 => self.rng.pick(&[
                (VT::I32, I::I64ExtendI32S),
                (VT::I32, I::I64ExtendI32U),
                (VT::F32, I::I64TruncF32S),
                (VT::F64, I::I64TruncSatF64S),
                (VT::F64, I::I64ReinterpretF64),
            ]).clone(),
            VT::F32 => self.rng.pick(&[
                (VT::I32, I::F32ConvertI32S),
                (VT::I64, I::F32ConvertI64U),
                (VT::F64, I::F32DemoteF64),
                (VT::I32, I::F32ReinterpretI32),
            ]).clone(),
            _ => self.rng.pick(&[
                (VT::I32, I::F64ConvertI32U),
                (VT::I64, I::F64ConvertI64S),
                (VT::F32, I::F64PromoteF32),
                (VT::I64, I::F64ReinterpretI64),
            ]).clone(),
        };
        self.expr(src, depth + 1);
        self.emit(op)
    }

    fn load(&mut self, t: VT, depth: u32) {
        let Some(m) = self.pick_mem() else { return self.leaf(t) };
        if self.env.p.threads && self.env.mems[m].shared && matches!(t, VT::I32 | VT::I64) && self.rng.bool() {
            self.uses_atomics = true;
            self.addr(m, depth);
            return match (t, self.rng.below(3)) {
                (VT::I32, 0) => {
                    let a = self.memarg(m, 2, true);
                    self.emit(I::I32AtomicLoad(a))
                }
                (VT::I32, 1) => {
                    let a = self.memarg(m, 1, true);
                    self.emit(I::I32AtomicLoad16U(a))
                }
                (VT::I32, _) => {
                    self.expr(VT::I32, depth + 1);
                    let a = self.memarg(m, 2, true);
                    self.emit(I::I32AtomicRmwAdd(a))
                }
                (_, 0) => {
                    let a = self.memarg(m, 3, true);
                    self.emit(I::I64AtomicLoad(a))
                }
                (_, 1) => {
                    self.expr(VT::I64, depth + 1);
                    self.expr(VT::I64, depth + 1);
                    let a = self.memarg(m, 3, true);
                    self.emit(I::I64AtomicRmwCmpxchg(a))
                }
                (_, _) => {
                    self.expr(VT::I64, depth + 1);
                    let a = self.memarg(m, 2, true);
                    self.emit(I::I64AtomicRmw32XchgU(a))
                }
            };
        }
        self.addr(m, depth);
        match t {
            VT::I32 => match self.rng.below(4) {
                0 => {
                    let a = self.memarg(m, 0, false);
                    self.emit(I::I32Load8S(a))
                }
                1 => {
                    let a = self.memarg(m, 1, false);
                    self.emit(I::I32Load16U(a))
                }
                _ => {
                    let a = self.memarg(m, 2, false);
                    self.emit(I::I32Load(a))
                }
            },
            VT::I64 => match self.rng.below(4) {
                0 => {
                    let a = self.memarg(m, 0, false);
                    self.emit(I::I64Load8U(a))
                }
                1 => {
                    let a = self.memarg(m, 2, false);
                    self.emit(I::I64Load32S(a))
                }
                _ => {
                    let a = self.memarg(m, 3, false);
                    self.emit(I::I64Load(a))
                }
            },
            VT::F32 => {
                let a = self.memarg(m, 2, false);
                self.emit(I::F32Load(a))
            }
            VT::F64 => {
                let a = self.memarg(m, 3, false);
                self.emit(I::F64Load(a))
            }
            _ => match self.rng.below(6) {
                0 => {
                    let a = self.memarg(m, 4, false);
                    self.emit(I::V128Load(a))
                }
                3 => {
                    // v128.loadN_lane: (addr, v128) -> v128
                    self.expr(VT::V128, depth + 1);
                    match self.rng.below(2) {
                        0 => {
                            let a = self.memarg(m, 0, false);
                            let lane = self.rng.below(16) as u8;
                            self.emit(I::V128Load8Lane { memarg: a, lane })
                        }
                        _ => {
                            let a = self.memarg(m, 2, false);
                            let lane = self.rng.below(4) as u8;
                            self.emit(I::V128Load32Lane { memarg: a, lane })
                        }
                    }
                }
                4 => {
                    let a = self.memarg(m, 3, false);
                    self.emit(I::V128Load64Zero(a))
                }
                5 => {
                    let a = self.memarg(m, 1, false);
                    self.emit(I::V128Load16Splat(a))
                }
                1 => {
                    let a = self.memarg(m, 3, false);
                    self.emit(I::V128Load8x8S(a))
                }
                _ => {
                    let a = self.memarg(m, 2, false);
                    self.emit(I::V128Load32Splat(a))
                }
            },
        }
    }

    fn call_expr(&mut self, t: VT, depth: u32) {
        let cands: Vec<usize> = self
            .env
            .funcs
            .iter()
            .enumerate()
            .filter(|(_, s)| {
                let sig = &self.env.sigs[**s as usize];
                sig.1.len() == 1 && sig.1[0] == t && sig.0.len() <= 3
            })
            .map(|(i, _)| i)
            .collect();
        if cands.is_empty() {
            return self.leaf(t);
        }
        let f = *self.rng.pick(&cands);
        let params = self.env.sigs[self.env.funcs[f] as usize].0.clone();
        for p in params {
            self.expr(p, depth + 2);
        }
        self.emit(I::Call(f as u32));
    }

    fn special(&mut self, t: VT, depth: u32) {
        match t {
            VT::I32 => match self.rng.below(5) {
                0 => {
                    let ms: Vec<usize> = self.env.mems.iter().enumerate().filter(|(_, m)| !m.mem64).map(|(i, _)| i).collect();
                    if ms.is_empty() {
                        self.leaf(t)
                    } else {
                        let m = *self.rng.pick(&ms);
                        self.emit(I::MemorySize(m as u32))
                    }
                }
                1 if self.env.p.refs && !self.env.tables.is_empty() => {
                    let tb = self.rng.usize_below(self.env.tables.len());
                    self.emit(I::TableSize(tb as u32))
                }
                2 if self.env.p.refs => {
                    let rt = if self.rng.bool() { FUNCREF } else { EXTERNREF };
                    self.expr(rt, depth + 1);
                    self.emit(I::RefIsNull)
                }
                3 if self.env.p.simd => {
                    self.expr(VT::V128, depth + 1);
                    match self.rng.below(3) {
                        0 => {
                            let l = self.rng.below(4) as u8;
                            self.emit(I::I32x4ExtractLane(l))
                        }
                        1 => self.emit(I::V128AnyTrue),
                        _ => self.emit(I::I8x16Bitmask),
                    }
                }
                _ => self.leaf(t),
            },
            VT::I64 => {
                let ms: Vec<usize> = self.env.mems.iter().enumerate().filter(|(_, m)| m.mem64).map(|(i, _)| i).collect();
                if ms.is_empty() {
                    self.leaf(t)
                } else {
                    let m = *self.rng.pick(&ms);
                    self.emit(I::MemorySize(m as u32))
                }
            }
            VT::V128 => match self.rng.below(8) {
                0 => {
                    self.expr(VT::I32, depth + 1);
                    self.emit(I::I32x4Splat)
                }
                // relaxed-simd proposal (finished: part of walrus's stable feature set)
                5 => {
                    self.expr(VT::V128, depth + 1);
                    self.expr(VT::V128, depth + 1);
                    let op = self.rng.pick(&[I::I8x16RelaxedSwizzle, I::F32x4RelaxedMin, I::F64x2RelaxedMax, I::I16x8RelaxedQ15mulrS, I::I16x8RelaxedDotI8x16I7x16S]).clone();
                    self.emit(op)
                }
                6 => {
                    self.expr(VT::V128, depth + 1);
                    self.expr(VT::V128, depth + 1);
                    self.expr(VT::V128, depth + 1);
                    let op = self.rng.pick(&[I::F32x4RelaxedMadd, I::F64x2RelaxedNmadd, I::I8x16RelaxedLaneselect, I::I64x2RelaxedLaneselect, I::I32x4RelaxedDotI8x16I7x16AddS, I::V128Bitselect]).clone();
                    self.emit(op)
                }
                7 => {
                    self.expr(VT::V128, depth + 1);
                    let op = self.rng.pick(&[I::I32x4RelaxedTruncF32x4S, I::I32x4RelaxedTruncF64x2UZero, I::F32x4Ceil, I::I16x8ExtendLowI8x16S, I::I8x16Popcnt]).clone();
                    self.emit(op)
                }
                1 => {
                    self.expr(VT::V128, depth + 1);
                    self.expr(VT::V128, depth + 1);
                    let op = self.rng.pick(&[I::I8x16Add, I::I16x8Mul, I::F32x4Add, I::V128Xor, I::I64x2Sub, I::F64x2Max]).clone();
                    self.emit(op)
                }
                2 => {
                    self.expr(VT::V128, depth + 1);
                    self.expr(VT::V128, depth + 1);
                    let mut lanes = [0u8; 16];
                    for l in lanes.iter_mut() {
                        *l = self.rng.below(32) as u8;
                    }
                    self.emit(I::I8x16Shuffle(lanes))
                }
                3 => {
                    self.expr(VT::V128, depth + 1);
                    self.expr(VT::F32, depth + 1);
                    let l = self.rng.below(4) as u8;
                    self.emit(I::F32x4ReplaceLane(l))
                }
                _ => {
                    self.expr(VT::V128, depth + 1);
                    self.emit(I::V128Not)
                }
            },
            VT::Ref(r) if self.env.p.refs => {
                let want_extern = r == we::RefType::EXTERNREF;
                let ts: Vec<usize> = self.env.tables.iter().enumerate().filter(|(_, e)| **e == want_extern).map(|(i, _)| i).collect();
                if ts.is_empty() {
                    self.leaf(t)
                } else {
                    let tb = *self.rng.pick(&ts);
                    self.expr(VT::I32, depth + 1);
                    self.emit(I::TableGet(tb as u32))
                }
            }
            _ => self.leaf(t),
        }
    }

    /// `n` statements, net stack effect zero.
    fn stmts(&mut self, n: u32, depth: u32) {
        for _ in 0..n {
            if self.budget <= 0 {
                break;
            }
            self.stmt(depth);
        }
    }

    fn stmt(&mut self, depth: u32) {
        let deep = depth > 4;
        match self.rng.below(24) {
            0..=2 => {
                let vts = self.val_types();
                let t = *self.rng.pick(&vts);
                self.expr(t, depth + 1);
                self.emit(I::Drop)
            }
            3..=5 => {
                if self.locals.is_empty() {
                    return self.emit(I::Nop);
                }
                let l = self.rng.usize_below(self.locals.len());
                let t = self.locals[l];
                self.expr(t, depth + 1);
                self.emit(I::LocalSet(l as u32))
            }
            6 => {
                let gs: Vec<usize> = self.env.globals.iter().enumerate().filter(|(_, g)| g.mutable).map(|(i, _)| i).collect();
                if gs.is_empty() {
                    return self.emit(I::Nop);
                }
                let g = *self.rng.pick(&gs);
                let t = self.env.globals[g].ty;
                self.expr(t, depth + 1);
                self.emit(I::GlobalSet(g as u32))
            }
            7..=8 => self.store(depth),
            9 => self.call_stmt(depth),
            10 if !deep => {
                self.emit(I::Block(BlockType::Empty));
                self.labels.push(vec![]);
                let n = self.rng.range(1, 3) as u32;
                self.stmts(n, depth + 1);
                self.maybe_branch(depth + 1);
                self.labels.pop();
                self.emit(I::End)
            }
            11 if !deep => {
                self.emit(I::Loop(BlockType::Empty));
                self.labels.push(vec![]);
                let n = self.rng.range(1, 3) as u32;
                self.stmts(n, depth + 1);
                self.maybe_branch(depth + 1);
                self.labels.pop();
                self.emit(I::End)
            }
            12 if !deep => {
                self.expr(VT::I32, depth + 1);
                self.emit(I::If(BlockType::Empty));
                self.labels.push(vec![]);
                self.stmts(2, depth + 1);
                self.maybe_branch(depth + 1);
                if self.rng.bool() {
                    self.emit(I::Else);
                    self.stmts(2, depth + 1);
                }
                self.labels.pop();
                self.emit(I::End)
            }
            13 if !deep => {
                if self.rng.chance(1, 3) {
                    self.valued_br_table(depth)
                } else {
                    self.br_table(depth)
                }
            }
            14 if !deep && self.env.p.multi_value => self.multi_value_block(depth),
            15 if self.env.p.bulk => self.bulk(depth),
            16 if self.env.p.refs => self.table_stmt(depth),
            17 if self.env.p.threads => self.atomic_stmt(depth),
            18 if !deep => {
                // a block that ends in code made dead by unreachable / return
                self.emit(I::Block(BlockType::Empty));
                self.labels.push(vec![]);
                self.stmts(1, depth + 1);
                match self.rng.below(3) {
                    0 => self.emit(I::Unreachable),
                    1 => {
                        let rs = self.results.clone();
                        for r in rs {
                            self.expr(r, depth + 2);
                        }
                        self.emit(I::Return)
                    }
                    _ => self.tail_call_or_unreachable(depth),
                }
                // dead code: still has to type-check polymorphically
                match self.rng.below(4) {
                    0 => {
                        self.emit(I::I32Const(7));
                        self.emit(I::Drop);
                    }
                    1 => {
                        // STRUCTURED dead code of varying size (parsers tend to keep bookkeeping for it)
                        let k = self.rng.range(1, 12);
                        self.emit(I::Block(BlockType::Empty));
                        for _ in 0..k {
                            self.emit(I::I64Const(1));
                            self.emit(I::Drop);
                        }
                        if self.rng.bool() {
                            self.emit(I::Loop(BlockType::Empty));
                            self.emit(I::Nop);
                            self.emit(I::End);
                        }
                        self.emit(I::End);
                    }
                    2 => {
                        self.emit(I::I32Const(0));
                        self.emit(I::If(BlockType::Empty));
                        self.emit(I::F32Const(1.0));
                        self.emit(I::Drop);
                        self.emit(I::Else);
                        self.emit(I::F64Const(2.0));
                        self.emit(I::Drop);
                        self.emit(I::End);
                    }
                    _ => {}
                }
                self.labels.pop();
                self.emit(I::End)
            }
            19 => self.emit(I::Nop),
            21..=22 => self.zoo_stmt(depth),
            20 => {
                // memory.grow
                if let Some(m) = self.pick_mem() {
                    self.addr(m, depth);
                    self.emit(I::MemoryGrow(m as u32));
                    self.emit(I::Drop)
                } else {
                    self.emit(I::Nop)
                }
            }
            _ => {
                let t = *self.rng.pick(&[VT::I32, VT::I64, VT::F32, VT::F64]);
                self.expr(t, depth + 1);
                self.emit(I::Drop)
            }
        }
    }

    fn tail_call_or_unreachable(&mut self, depth: u32) {
        if self.env.p.tail_call {
            let cands: Vec<usize> = self
                .env
                .funcs
                .iter()
                .enumerate()
                .filter(|(_, s)| self.env.sigs[**s as usize].1 == self.results && self.env.sigs[**s as usize].0.len() <= 3)
                .map(|(i, _)| i)
                .collect();
            if !cands.is_empty() {
                let f = *self.rng.pick(&cands);
                let params = self.env.sigs[self.env.funcs[f] as usize].0.clone();
                for p in params {
                    self.expr(p, depth + 2);
                }
                let funcref_tables: Vec<usize> = self.env.tables.iter().enumerate().filter(|(_, e)| !**e).map(|(i, _)| i).collect();
                if !funcref_tables.is_empty() && self.rng.chance(1, 3) {
                    let tb = *self.rng.pick(&funcref_tables);
                    self.expr(VT::I32, depth + 2);
                    return self.emit(I::ReturnCallIndirect { type_index: self.env.funcs[f], table_index: tb as u32 });
                }
                return self.emit(I::ReturnCall(f as u32));
            }
        }
        self.emit(I::Unreachable)
    }

    /// Optionally branch to an enclosing label that carries no values.
    fn maybe_branch(&mut self, depth: u32) {
        let void: Vec<u32> = self.labels.iter().rev().enumerate().filter(|(_, l)| l.is_empty()).map(|(i, _)| i as u32).collect();
        if void.is_empty() {
            return;
        }
        match self.rng.below(4) {
            0 => {
                let l = *self.rng.pick(&void);
                self.expr(VT::I32, depth + 1);
                self.emit(I::BrIf(l))
            }
            1 => {
                // unconditional: only as the last thing (what follows in this
                // sequence is `end`/`else`)
                let l = *self.rng.pick(&void);
                self.emit(I::Br(l))
            }
            _ => {}
        }
    }

    fn br_table(&mut self, depth: u32) {
        let k = self.rng.range(1, 4) as u32;
        for _ in 0..k {
            self.emit(I::Block(BlockType::Empty));
            self.labels.push(vec![]);
        }
        self.stmts(1, depth + 1);
        self.expr(VT::I32, depth + 1);
        let targets: Vec<u32> = (0..self.rng.range(0, 5)).map(|_| self.rng.below(k as u64) as u32).collect();
        let default = self.rng.below(k as u64) as u32;
        self.emit(I::BrTable(targets.into(), default));
        for _ in 0..k {
            self.labels.pop();
            self.emit(I::End);
            if self.rng.chance(1, 3) {
                self.emit(I::Nop);
            }
        }
    }

    /// `br_table` whose labels carry a value: `block (result t) <t> <i32> br_table 0* 0 end`, with zero to a few
    /// targets (all the same label).  The selector sits ON TOP of the carried value.
    fn valued_br_table(&mut self, depth: u32) {
        let vts = self.val_types();
        let t = *self.rng.pick(&vts);
        self.emit(I::Block(BlockType::Result(t)));
        self.labels.push(vec![t]);
        self.expr(t, depth + 1);
        self.expr(VT::I32, depth + 1);
        let n = *self.rng.pick(&[0usize, 0, 1, 3]);
        self.emit(I::BrTable(vec![0u32; n].into(), 0));
        self.labels.pop();
        self.emit(I::End);
        self.emit(I::Drop);
    }

    fn multi_value_block(&mut self, depth: u32) {
        // pick a signature with params and/or >1 results, numeric only
        let cands: Vec<usize> = self
            .env
            .sigs
            .iter()
            .enumerate()
            .filter(|(_, (p, r))| (p.len() + r.len() >= 2) && p.len() <= 3 && r.len() <= 3)
            .map(|(i, _)| i)
            .collect();
        if cands.is_empty() {
            return self.emit(I::Nop);
        }
        let s = *self.rng.pick(&cands);
        let (ps, rs) = self.env.sigs[s].clone();
        for p in &ps {
            self.expr(*p, depth + 1);
        }
        let is_loop = self.rng.chance(1, 3);
        if is_loop {
            self.emit(I::Loop(BlockType::FunctionType(s as u32)));
            self.labels.push(ps.clone());
        } else {
            self.emit(I::Block(BlockType::FunctionType(s as u32)));
            self.labels.push(rs.clone());
        }
        for _ in &ps {
            self.emit(I::Drop);
        }
        self.stmts(1, depth + 1);
        for r in &rs {
            self.expr(*r, depth + 1);
        }
        self.labels.pop();
        self.emit(I::End);
        for _ in &rs {
            self.emit(I::Drop);
        }
    }

    fn store(&mut self, depth: u32) {
        let Some(m) = self.pick_mem() else { return self.emit(I::Nop) };
        self.addr(m, depth);
        let mut ts = vec![VT::I32, VT::I64, VT::F32, VT::F64];
        if self.env.p.simd {
            ts.push(VT::V128);
        }
        let t = *self.rng.pick(&ts);
        self.expr(t, depth + 1);
        match t {
            VT::I32 => {
                if self.rng.bool() {
                    let a = self.memarg(m, 2, false);
                    self.emit(I::I32Store(a))
                } else {
                    let a = self.memarg(m, 0, false);
                    self.emit(I::I32Store8(a))
                }
            }
            VT::I64 => {
                if self.rng.bool() {
                    let a = self.memarg(m, 3, false);
                    self.emit(I::I64Store(a))
                } else {
                    let a = self.memarg(m, 1, false);
                    self.emit(I::I64Store16(a))
                }
            }
            VT::F32 => {
                let a = self.memarg(m, 2, false);
                self.emit(I::F32Store(a))
            }
            VT::F64 => {
                let a = self.memarg(m, 3, false);
                self.emit(I::F64Store(a))
            }
            _ => {
                if self.rng.bool() {
                    let a = self.memarg(m, 4, false);
                    self.emit(I::V128Store(a))
                } else {
                    let a = self.memarg(m, 3, false);
                    let lane = self.rng.below(2) as u8;
                    self.emit(I::V128Store64Lane { memarg: a, lane })
                }
            }
        }
    }

    fn call_stmt(&mut self, depth: u32) {
        if self.env.funcs.is_empty() {
            return self.emit(I::Nop);
        }
        let f = self.rng.usize_below(self.env.funcs.len());
        let (ps, rs) = self.env.sigs[self.env.funcs[f] as usize].clone();
        if ps.len() > 4 {
            return self.emit(I::Nop);
        }
        let indirect = self.env.p.refs || !self.env.tables.is_empty();
        let funcref_tables: Vec<usize> = self.env.tables.iter().enumerate().filter(|(_, e)| !**e).map(|(i, _)| i).collect();
        for p in &ps {
            self.expr(*p, depth + 2);
        }
        if indirect && !funcref_tables.is_empty() && self.rng.chance(1, 3) {
            let tb = *self.rng.pick(&funcref_tables);
            self.expr(VT::I32, depth + 2);
            self.emit(I::CallIndirect { type_index: self.env.funcs[f], table_index: tb as u32 });
        } else {
            self.emit(I::Call(f as u32));
        }
        for _ in &rs {
            self.emit(I::Drop);
        }
    }

    fn bulk(&mut self, depth: u32) {
        match self.rng.below(4) {
            0 => {
                if let Some(m) = self.pick_mem() {
                    self.addr(m, depth);
                    self.expr(VT::I32, depth + 1);
                    self.addr(m, depth);
                    self.emit(I::MemoryFill(m as u32))
                } else {
                    self.emit(I::Nop)
                }
            }
            1 => {
                if let (Some(a), Some(b)) = (self.pick_mem(), self.pick_mem()) {
                    // dst addr (a), src addr (b), len: min index type
                    self.addr(a, depth);
                    self.addr(b, depth);
                    let both64 = self.env.mems[a].mem64 && self.env.mems[b].mem64;
                    self.expr(if both64 { VT::I64 } else { VT::I32 }, depth + 1);
                    self.emit(I::MemoryCopy { src_mem: b as u32, dst_mem: a as u32 })
                } else {
                    self.emit(I::Nop)
                }
            }
            2 if self.env.n_data > 0 && !self.env.no_data_users => {
                if let Some(m) = self.pick_mem() {
                    let d = self.rng.below(self.env.n_data as u64) as u32;
                    self.addr(m, depth);
                    self.expr(VT::I32, depth + 1);
                    self.expr(VT::I32, depth + 1);
                    self.data_users += 1;
                    self.emit(I::MemoryInit { mem: m as u32, data_index: d })
                } else {
                    self.emit(I::Nop)
                }
            }
            3 if self.env.n_data > 0 && !self.env.no_data_users => {
                let d = self.rng.below(self.env.n_data as u64) as u32;
                self.data_users += 1;
                self.emit(I::DataDrop(d))
            }
            _ => self.emit(I::Nop),
        }
    }

    fn table_stmt(&mut self, depth: u32) {
        if self.env.tables.is_empty() {
            return self.emit(I::Nop);
        }
        let tb = self.rng.usize_below(self.env.tables.len());
        let rt = if self.env.tables[tb] { EXTERNREF } else { FUNCREF };
        match self.rng.below(6) {
            0 => {
                self.expr(VT::I32, depth + 1);
                self.expr(rt, depth + 1);
                self.emit(I::TableSet(tb as u32))
            }
            1 => {
                self.expr(rt, depth + 1);
                self.expr(VT::I32, depth + 1);
                self.emit(I::TableGrow(tb as u32));
                self.emit(I::Drop)
            }
            2 => {
                self.expr(VT::I32, depth + 1);
                self.expr(rt, depth + 1);
                self.expr(VT::I32, depth + 1);
                self.emit(I::TableFill(tb as u32))
            }
            3 => {
                let same: Vec<usize> = self.env.tables.iter().enumerate().filter(|(_, e)| **e == self.env.tables[tb]).map(|(i, _)| i).collect();
                let src = *self.rng.pick(&same);
                self.expr(VT::I32, depth + 1);
                self.expr(VT::I32, depth + 1);
                self.expr(VT::I32, depth + 1);
                self.emit(I::TableCopy { src_table: src as u32, dst_table: tb as u32 })
            }
            4 if !self.env.tables[tb] && !self.env.passive_funcref_elems.is_empty() && self.env.p.bulk => {
                let e = *self.rng.pick(&self.env.passive_funcref_elems);
                self.expr(VT::I32, depth + 1);
                self.expr(VT::I32, depth + 1);
                self.expr(VT::I32, depth + 1);
                self.emit(I::TableInit { elem_index: e, table: tb as u32 })
            }
            5 if !self.env.passive_funcref_elems.is_empty() && self.env.p.bulk => {
                let e = *self.rng.pick(&self.env.passive_funcref_elems);
                self.emit(I::ElemDrop(e))
            }
            _ => self.emit(I::Nop),
        }
    }

    fn atomic_stmt(&mut self, depth: u32) {
        self.uses_atomics = true;
        let Some(m) = self.pick_shared_mem() else { return self.emit(I::AtomicFence) };
        match self.rng.below(8) {
            0 => {
                self.addr(m, depth);
                self.expr(VT::I32, depth + 1);
                let a = self.memarg(m, 2, true);
                self.emit(I::I32AtomicStore(a))
            }
            1 => {
                self.addr(m, depth);
                self.expr(VT::I32, depth + 1);
                let a = self.memarg(m, 2, true);
                self.emit(I::MemoryAtomicNotify(a));
                self.emit(I::Drop)
            }
            2 => {
                self.addr(m, depth);
                self.expr(VT::I32, depth + 1);
                self.expr(VT::I64, depth + 1);
                let a = self.memarg(m, 2, true);
                self.emit(I::MemoryAtomicWait32(a));
                self.emit(I::Drop)
            }
            3 => {
                self.addr(m, depth);
                self.expr(VT::I64, depth + 1);
                self.expr(VT::I64, depth + 1);
                let a = self.memarg(m, 3, true);
                self.emit(I::MemoryAtomicWait64(a));
                self.emit(I::Drop)
            }
            4 => {
                self.addr(m, depth);
                self.expr(VT::I32, depth + 1);
                let a = self.memarg(m, 0, true);
                self.emit(I::I32AtomicStore8(a))
            }
            5 => {
                self.addr(m, depth);
                self.expr(VT::I64, depth + 1);
                let a = self.memarg(m, 0, true);
                self.emit(I::I64AtomicRmw8AddU(a));
                self.emit(I::Drop)
            }
            6 => {
                self.addr(m, depth);
                self.expr(VT::I32, depth + 1);
                self.expr(VT::I32, depth + 1);
                let a = self.memarg(m, 1, true);
                self.emit(I::I32AtomicRmw16CmpxchgU(a));
                self.emit(I::Drop)
            }
            _ => self.emit(I::AtomicFence),
        }
    }
}

impl<'e> Body<'e> {
    fn zoo_allowed(&self, op: &crate::opzoo::Op) -> Option<Option<usize>> {
        // Some(mem) if usable here (mem = which memory, for memory operators)
        use crate::opzoo::{Feat, Op};
        let feat_ok = |f: &Feat| match f {
            Feat::Mvp => true,
            Feat::Simd | Feat::Relaxed => self.env.p.simd,
            Feat::Threads => self.env.p.threads,
        };
        match op {
            Op::Plain { feat, .. } => feat_ok(feat).then_some(None),
            Op::Lane { .. } => self.env.p.simd.then_some(None),
            Op::Mem { feat, atomic, .. } => {
                if !feat_ok(feat) {
                    return None;
                }
                let cands: Vec<usize> = self.env.mems.iter().enumerate().filter(|(_, m)| !*atomic || m.shared).map(|(i, _)| i).collect();
                if cands.is_empty() {
                    None
                } else {
                    Some(Some(cands[self.budget.unsigned_abs() as usize % cands.len()]))
                }
            }
            Op::MemLane { .. } => {
                if !self.env.p.simd || self.env.mems.is_empty() {
                    None
                } else {
                    Some(Some(self.budget.unsigned_abs() as usize % self.env.mems.len()))
                }
            }
        }
    }

    fn zoo_emit(&mut self, idx: usize, mem: Option<usize>, depth: u32) -> Option<VT> {
        use crate::opzoo::Op;
        let op = self.env.zoo[idx].clone();
        match op {
            Op::Plain { ins, args, ret, feat } => {
                if matches!(feat, crate::opzoo::Feat::Threads) {
                    self.uses_atomics = true;
                }
                for a in args {
                    self.expr(*a, depth + 1);
                }
                self.emit(ins);
                ret
            }
            Op::Lane { mk, lanes, args, ret } => {
                for a in args {
                    self.expr(*a, depth + 1);
                }
                let l = self.rng.below(lanes as u64) as u8;
                self.emit(mk(l));
                ret
            }
            Op::Mem { mk, args, ret, natural, atomic, .. } => {
                let m = mem.unwrap();
                if atomic {
                    self.uses_atomics = true;
                }
                self.addr(m, depth);
                for a in args {
                    self.expr(*a, depth + 1);
                }
                let ma = self.memarg(m, natural, atomic);
                self.emit(mk(ma));
                ret
            }
            Op::MemLane { mk, lanes, natural, store } => {
                let m = mem.unwrap();
                self.addr(m, depth);
                self.expr(VT::V128, depth + 1);
                let ma = self.memarg(m, natural, false);
                let l = self.rng.below(lanes as u64) as u8;
                self.emit(mk(ma, l));
                if store {
                    None
                } else {
                    Some(VT::V128)
                }
            }
        }
    }

    fn zoo_expr(&mut self, t: VT, depth: u32) {
        let env = self.env;
        let cands = &env.zoo_by_ret[ty_key(t)];
        for _ in 0..6 {
            if cands.is_empty() {
                break;
            }
            let idx = cands[self.rng.usize_below(cands.len())];
            if let Some(mem) = self.zoo_allowed(&env.zoo[idx]) {
                self.zoo_emit(idx, mem, depth);
                return;
            }
        }
        self.leaf(t)
    }

    fn zoo_stmt(&mut self, depth: u32) {
        let env = self.env;
        let n = env.zoo.len();
        for _ in 0..6 {
            // half the time a store-like operator, else any operator followed by drop
            let idx = if self.rng.bool() && !env.zoo_void.is_empty() { env.zoo_void[self.rng.usize_below(env.zoo_void.len())] } else { self.rng.usize_below(n) };
            if let Some(mem) = self.zoo_allowed(&env.zoo[idx]) {
                if self.zoo_emit(idx, mem, depth).is_some() {
                    self.emit(I::Drop);
                }
                return;
            }
        }
        self.emit(I::Nop)
    }
}

fn const_expr_for(t: VT, rng: &mut Rng, imported_immutable: &[(u32, VT)], declared: &[u32]) -> we::ConstExpr {
    let same: Vec<u32> = imported_immutable.iter().filter(|(_, gt)| *gt == t).map(|(i, _)| *i).collect();
    if !same.is_empty() && rng.chance(1, 3) {
        return we::ConstExpr::global_get(*rng.pick(&same));
    }
    match t {
        VT::I32 => we::ConstExpr::i32_const(rng.u32() as i32 >> rng.below(32)),
        VT::I64 => we::ConstExpr::i64_const(rng.u64() as i64 >> rng.below(64)),
        VT::F32 => we::ConstExpr::f32_const(f32::from_bits(if rng.chance(1, 4) { 0x7fc0_0123 } else { rng.u32() })),
        VT::F64 => we::ConstExpr::f64_const(f64::from_bits(if rng.chance(1, 4) { 0x7ff8_0000_0000_0123 } else { rng.u64() })),
        VT::V128 => we::ConstExpr::v128_const(((rng.u64() as u128) << 64 | rng.u64() as u128) as i128),
        VT::Ref(r) => {
            if r == we::RefType::FUNCREF {
                if !declared.is_empty() && rng.bool() {
                    we::ConstExpr::ref_func(*rng.pick(declared))
                } else {
                    we::ConstExpr::ref_null(HeapType::Abstract { shared: false, ty: we::AbstractHeapType::Func })
                }
            } else {
                we::ConstExpr::ref_null(HeapType::Abstract { shared: false, ty: we::AbstractHeapType::Extern })
            }
        }
    }
}

const CUSTOM_NAMES: &[&str] = &[
    "foo", "", "linking", "target_features", "names", "producer", "debug_info", "sourceMappingURL", "ünï-ç", "reloc.CODE", "foo", "dylink.0",
    "name ", "Name", ".Debug", "x.debug_info",
];

pub fn boundary_len(rng: &mut Rng) -> usize {
    match rng.below(9) {
        0 => 0,
        1 => 1,
        2 => 127,
        3 => 128,
        4 => 16383,
        5 => 16384,
        6 => rng.below(20) as usize,
        7 => rng.below(300) as usize,
        _ => rng.below(3000) as usize,
    }
}

/// Generate one module.
pub fn generate(p: &GenParams) -> Generated {
    let mut rng = Rng::new(p.seed);
    let mut recipe = Recipe { expect_valid: true, ..Default::default() };

    // ---- types
    let mut base: Vec<VT> = vec![VT::I32, VT::I64, VT::F32, VT::F64];
    if p.simd {
        base.push(VT::V128);
    }
    if p.refs {
        base.push(FUNCREF);
        base.push(EXTERNREF);
    }
    let mut sigs: Vec<(Vec<VT>, Vec<VT>)> = vec![(vec![], vec![])];
    // (a quarter of the modules have many types: tables keyed by type index see more than a handful)
    let n_sigs = if rng.chance(1, 4) { rng.range(9, 28) } else { rng.range(2, 8) };
    for _ in 0..n_sigs {
        let np = rng.small(4);
        let nr = if p.multi_value { rng.small(3) } else { rng.below(2) };
        let ps: Vec<VT> = (0..np).map(|_| *rng.pick(&base)).collect();
        let rs: Vec<VT> = (0..nr).map(|_| *rng.pick(&base[..base.len().min(4 + p.simd as usize)])).collect();
        sigs.push((ps, rs));
    }
    // duplicates on purpose now and then: walrus de-duplicates types
    if rng.chance(1, 3) {
        let d = sigs[rng.usize_below(sigs.len())].clone();
        sigs.push(d);
    }

    // ---- imports
    let n_imp_funcs = rng.small(3) as u32;
    let imp_mem = rng.chance(1, 5);
    let imp_table = p.refs && rng.chance(1, 6) || rng.chance(1, 10);
    let n_imp_globals = rng.small(3) as u32;
    let mut funcs: Vec<u32> = Vec::new();
    for _ in 0..n_imp_funcs {
        funcs.push(rng.below(sigs.len() as u64) as u32);
    }
    let mut globals: Vec<GlobalInfo> = Vec::new();
    for _ in 0..n_imp_globals {
        let mut ts = vec![VT::I32, VT::I64, VT::F32, VT::F64];
        if p.refs {
            ts.push(EXTERNREF);
            ts.push(FUNCREF);
        }
        globals.push(GlobalInfo { ty: *rng.pick(&ts), mutable: rng.chance(1, 4), imported: true });
    }
    let imported_immutable: Vec<(u32, VT)> =
        globals.iter().enumerate().filter(|(_, g)| !g.mutable).map(|(i, g)| (i as u32, g.ty)).collect();

    // ---- memories
    let mut mems: Vec<MemInfo> = Vec::new();
    let n_mems_total = if p.multi_memory { rng.range(2, 3) } else { rng.below(2) + imp_mem as u64 }.max(imp_mem as u64);
    let mut mem_types: Vec<we::MemoryType> = Vec::new();
    for _ in 0..n_mems_total {
        let mem64 = p.memory64 && rng.bool();
        let shared = p.threads && rng.bool();
        let minimum = rng.below(3);
        let maximum = if shared || rng.bool() { Some(minimum + rng.below(4)) } else { None };
        mems.push(MemInfo { mem64, shared });
        mem_types.push(we::MemoryType { minimum, maximum, memory64: mem64, shared, page_size_log2: None });
    }
    recipe.needs_multi_memory = mems.len() > 1;
    recipe.needs_memory64 = mems.iter().any(|m| m.mem64);
    let any_shared = mems.iter().any(|m| m.shared);

    // ---- tables
    let mut tables: Vec<bool> = Vec::new();
    let mut table_types: Vec<we::TableType> = Vec::new();
    let n_tables_total = if p.refs { rng.below(3) + imp_table as u64 } else { rng.below(2).max(imp_table as u64) }.max(imp_table as u64);
    for _ in 0..n_tables_total {
        let ext = p.refs && rng.chance(1, 3);
        let minimum = rng.below(12);
        let maximum = if rng.bool() { Some(minimum + rng.below(10)) } else { None };
        tables.push(ext);
        table_types.push(we::TableType {
            element_type: if ext { we::RefType::EXTERNREF } else { we::RefType::FUNCREF },
            table64: false,
            minimum,
            maximum,
            shared: false,
        });
    }

    // ---- local functions (signatures)
    for _ in 0..p.n_funcs {
        funcs.push(rng.below(sigs.len() as u64) as u32);
    }
    let n_total_funcs = funcs.len() as u32;
    recipe.n_funcs = p.n_funcs;
    recipe.n_imported_funcs = n_imp_funcs;

    // functions that may be named by ref.func in bodies / globals
    let mut declared_funcs: Vec<u32> = Vec::new();
    if p.refs && n_total_funcs > 0 {
        for _ in 0..rng.small(4) {
            declared_funcs.push(rng.below(n_total_funcs as u64) as u32);
        }
        declared_funcs.sort();
        declared_funcs.dedup();
    }

    // ---- local globals
    let n_local_globals = rng.small(6);
    let mut global_inits: Vec<(we::GlobalType, we::ConstExpr)> = Vec::new();
    for _ in 0..n_local_globals {
        let ty = *rng.pick(&base);
        let mutable = rng.bool();
        // (a ref.func in a global initialiser needs no declaration elsewhere: it may be the function's only mention)
        let any_func: Vec<u32> = if n_total_funcs > 0 && rng.bool() { vec![rng.below(n_total_funcs as u64) as u32] } else { declared_funcs.clone() };
        let init = const_expr_for(ty, &mut rng, &imported_immutable, &any_func);
        globals.push(GlobalInfo { ty, mutable, imported: false });
        global_inits.push((we::GlobalType { val_type: ty, mutable, shared: false }, init));
    }

    // ---- data segments
    let lone = p.lone_data_user != 0 && p.bulk && !mems.is_empty() && p.n_funcs > 0;
    let n_data = if mems.is_empty() { if p.bulk { rng.below(2) } else { 0 } } else if lone { 1 + rng.small(3) } else { rng.small(4) } as u32;
    let mut data_segs: Vec<(Option<(u32, we::ConstExpr)>, Vec<u8>)> = Vec::new();
    for _ in 0..n_data {
        let passive = !lone && (mems.is_empty() || (p.bulk && (rng.chance(1, 3) || p.passive_bias && rng.bool())));
        let len = rng.small(40) as usize;
        let bytes = rng.bytes(len);
        if passive {
            recipe.passive_data += 1;
            data_segs.push((None, bytes));
        } else {
            let m = rng.usize_below(mems.len());
            let off = if mems[m].mem64 {
                let same: Vec<u32> = imported_immutable.iter().filter(|(_, t)| *t == VT::I64).map(|(i, _)| *i).collect();
                if !same.is_empty() && rng.chance(1, 4) {
                    we::ConstExpr::global_get(same[0])
                } else {
                    we::ConstExpr::i64_const(rng.below(1000) as i64)
                }
            } else {
                let same: Vec<u32> = imported_immutable.iter().filter(|(_, t)| *t == VT::I32).map(|(i, _)| *i).collect();
                if !same.is_empty() && rng.chance(1, 4) {
                    we::ConstExpr::global_get(same[0])
                } else {
                    we::ConstExpr::i32_const(rng.below(1000) as i32)
                }
            };
            data_segs.push((Some((m as u32, off)), bytes));
        }
    }

    // ---- element segments
    struct Elem {
        mode: u8, // 0 active 1 passive 2 declared
        table: u32,
        offset: we::ConstExpr,
        exprs: Option<(bool, Vec<we::ConstExpr>)>, // (externref?, items)
        funcs: Vec<u32>,
        explicit_table: bool,
    }
    let mut elems: Vec<Elem> = Vec::new();
    let mut passive_funcref_elems: Vec<u32> = Vec::new();
    let n_elems = if n_total_funcs == 0 && !p.refs { 0 } else { rng.small(4) };
    for _ in 0..n_elems {
        let funcref_tables: Vec<usize> = tables.iter().enumerate().filter(|(_, e)| !**e).map(|(i, _)| i).collect();
        let ext_tables: Vec<usize> = tables.iter().enumerate().filter(|(_, e)| **e).map(|(i, _)| i).collect();
        let mut mode = if p.bulk { rng.below(3) as u8 } else { 0 };
        let want_ext = p.refs && !ext_tables.is_empty() && rng.chance(1, 4);
        if mode == 0 && ((want_ext && ext_tables.is_empty()) || (!want_ext && funcref_tables.is_empty())) {
            if p.bulk {
                mode = 1;
            } else {
                continue;
            }
        }
        let n_items = rng.small(6) as usize;
        let i32_imm: Vec<u32> = imported_immutable.iter().filter(|(_, t)| *t == VT::I32).map(|(i, _)| *i).collect();
        let offset = if !i32_imm.is_empty() && rng.chance(1, 4) {
            we::ConstExpr::global_get(i32_imm[0])
        } else {
            we::ConstExpr::i32_const(rng.below(8) as i32)
        };
        if want_ext && mode != 2 {
            let ext_globals: Vec<u32> = imported_immutable.iter().filter(|(_, t)| *t == EXTERNREF).map(|(i, _)| *i).collect();
            let items: Vec<we::ConstExpr> = (0..n_items)
                .map(|_| {
                    if !ext_globals.is_empty() && rng.bool() {
                        we::ConstExpr::global_get(*rng.pick(&ext_globals))
                    } else {
                        we::ConstExpr::ref_null(HeapType::Abstract { shared: false, ty: we::AbstractHeapType::Extern })
                    }
                })
                .collect();
            let table = if mode == 0 { *rng.pick(&ext_tables) as u32 } else { 0 };
            elems.push(Elem { mode, table, offset, exprs: Some((true, items)), funcs: vec![], explicit_table: true });
            continue;
        }
        let table = if mode == 0 { *rng.pick(&funcref_tables) as u32 } else { 0 };
        let use_exprs = p.refs && rng.chance(1, 3);
        if use_exprs {
            let fr_globals: Vec<u32> = imported_immutable.iter().filter(|(_, t)| *t == FUNCREF).map(|(i, _)| *i).collect();
            let items: Vec<we::ConstExpr> = (0..n_items)
                .map(|_| match rng.below(3) {
                    0 if n_total_funcs > 0 => we::ConstExpr::ref_func(rng.below(n_total_funcs as u64) as u32),
                    1 if !fr_globals.is_empty() => we::ConstExpr::global_get(*rng.pick(&fr_globals)),
                    _ => we::ConstExpr::ref_null(HeapType::Abstract { shared: false, ty: we::AbstractHeapType::Func }),
                })
                .collect();
            if mode == 1 {
                passive_funcref_elems.push(elems.len() as u32);
            }
            elems.push(Elem { mode, table, offset, exprs: Some((false, items)), funcs: vec![], explicit_table: table != 0 || rng.bool() });
        } else {
            if n_total_funcs == 0 {
                continue;
            }
            let items: Vec<u32> = (0..n_items).map(|_| rng.below(n_total_funcs as u64) as u32).collect();
            if mode == 1 {
                passive_funcref_elems.push(elems.len() as u32);
            }
            elems.push(Elem { mode, table, offset, exprs: None, funcs: items, explicit_table: table != 0 || (p.bulk && rng.chance(1, 4)) });
        }
    }
    // the declared segment that makes ref.func legal in bodies and globals
    if !declared_funcs.is_empty() {
        elems.push(Elem {
            mode: 2,
            table: 0,
            offset: we::ConstExpr::i32_const(0),
            exprs: None,
            funcs: declared_funcs.clone(),
            explicit_table: false,
        });
    }

    let zoo = crate::opzoo::all();
    let mut zoo_by_ret: Vec<Vec<usize>> = vec![Vec::new(); 6];
    let mut zoo_void = Vec::new();
    for (i, op) in zoo.iter().enumerate() {
        let ret = match op {
            crate::opzoo::Op::Plain { ret, .. } | crate::opzoo::Op::Mem { ret, .. } | crate::opzoo::Op::Lane { ret, .. } => *ret,
            crate::opzoo::Op::MemLane { store, .. } => {
                if *store {
                    None
                } else {
                    Some(VT::V128)
                }
            }
        };
        match ret {
            Some(t) => zoo_by_ret[ty_key(t)].push(i),
            None => zoo_void.push(i),
        }
    }
    let env = Env {
        zoo: std::rc::Rc::new(zoo),
        zoo_by_ret: std::rc::Rc::new(zoo_by_ret),
        zoo_void: std::rc::Rc::new(zoo_void),
        sigs: sigs.clone(),
        funcs: funcs.clone(),
        globals: globals.clone(),
        mems: mems.clone(),
        tables: tables.clone(),
        n_data,
        passive_funcref_elems: passive_funcref_elems.clone(),
        declared_funcs: declared_funcs.clone(),
        no_data_users: lone,
        p: p.clone(),
    };

    // ---- bodies
    let mut bodies: Vec<we::Function> = Vec::new();
    let mut uses_atomics = false;
    let mut data_users = 0u32;
    let error_funcs: Vec<u32> = {
        let mut v = Vec::new();
        let mut r2 = rng.fork("errors");
        for _ in 0..p.plant_errors.min(p.n_funcs) {
            v.push(r2.below(p.n_funcs as u64) as u32);
        }
        v.sort();
        v.dedup();
        v
    };
    let lone_at: u32 = match p.lone_data_user {
        1 => p.n_funcs.saturating_sub(1),
        2 => 0,
        _ => rng.fork("lone").below(p.n_funcs.max(1) as u64) as u32,
    };
    let big_ones: Vec<u32> = if p.size_mode >= 2 { (0..3).map(|_| rng.below(p.n_funcs as u64) as u32).collect() } else { vec![] };
    for k in 0..p.n_funcs {
        let sig = &sigs[funcs[(n_imp_funcs + k) as usize] as usize];
        let mut brng = rng.fork(&format!("body{}", k));
        let n_locals = brng.small(6);
        let mut locals: Vec<VT> = sig.0.clone();
        let mut decl: Vec<VT> = Vec::new();
        for _ in 0..n_locals {
            let t = *brng.pick(&base);
            locals.push(t);
            decl.push(t);
        }
        let budget = match p.size_mode {
            0 => brng.range(0, 6) as i64,
            1 => 40,
            _ => {
                if p.size_mode == 3 && big_ones.first() == Some(&k) {
                    brng.range(4000, 9000) as i64
                } else if big_ones.contains(&k) {
                    brng.range(300, 1500) as i64
                } else {
                    brng.range(0, 20) as i64
                }
            }
        };
        let mut b = Body {
            env: &env,
            rng: brng,
            locals,
            labels: vec![sig.1.clone()],
            results: sig.1.clone(),
            out: Vec::new(),
            budget,
            data_users: 0,
            uses_atomics: false,
        };
        let mut guard = 0;
        let mut boundaries = vec![0usize];
        while b.budget > 0 && guard < if p.size_mode == 3 { 6000 } else { 400 } {
            b.stmt(1);
            boundaries.push(b.out.len());
            guard += 1;
        }
        if (!lone && p.passive_bias && p.bulk && n_data > 0 && b.rng.chance(1, 4)) || (lone && k == lone_at) {
            let d = b.rng.below(n_data as u64) as u32;
            b.data_users += 1;
            b.out.push(I::DataDrop(d));
            boundaries.push(b.out.len());
        }
        for r in sig.1.clone() {
            b.budget = b.budget.max(3);
            b.expr(r, 3);
        }
        if error_funcs.contains(&k) {
            // a type error local to this body: i64 operand to an i32 operator
            // spliced at a top-level statement boundary (stack is empty there)
            let at = *b.rng.pick(&boundaries);
            b.out.insert(at, I::Drop);
            b.out.insert(at, I::I32Eqz);
            b.out.insert(at, I::I64Const(0));
        }
        b.out.push(I::End);
        uses_atomics |= b.uses_atomics;
        data_users += b.data_users;
        // compress locals declaration into runs
        let mut runs: Vec<(u32, VT)> = Vec::new();
        for t in decl {
            match runs.last_mut() {
                Some((n, lt)) if *lt == t => *n += 1,
                _ => runs.push((1, t)),
            }
        }
        let mut f = we::Function::new(runs);
        for ins in &b.out {
            f.instruction(ins);
        }
        bodies.push(f);
    }
    recipe.planted_error_funcs = error_funcs.clone();
    if !error_funcs.is_empty() {
        recipe.expect_valid = false;
    }
    recipe.needs_threads = any_shared || uses_atomics;
    recipe.data_users = data_users;

    // ---- assemble
    let mut m = we::Module::new();
    let mut ts = we::TypeSection::new();
    for (ps, rs) in &sigs {
        ts.function(ps.iter().copied(), rs.iter().copied());
    }
    m.section(&ts);

    let mut is = we::ImportSection::new();
    let mut any_import = false;
    // imports must come in index-space order per kind; kinds may interleave
    let mut mem_i = 0;
    let mut table_i = 0;
    for k in 0..n_imp_funcs {
        is.import("env", &format!("f{}", k), we::EntityType::Function(funcs[k as usize]));
        any_import = true;
        if k == 0 && imp_mem && !mem_types.is_empty() {
            is.import("env", "memory", we::EntityType::Memory(mem_types[0]));
            mem_i = 1;
        }
    }
    if imp_mem && mem_i == 0 && !mem_types.is_empty() {
        is.import("env", "memory", we::EntityType::Memory(mem_types[0]));
        mem_i = 1;
        any_import = true;
    }
    if imp_table && !table_types.is_empty() {
        is.import("env", "table", we::EntityType::Table(table_types[0]));
        table_i = 1;
        any_import = true;
    }
    for (k, g) in globals.iter().enumerate().filter(|(_, g)| g.imported) {
        is.import(
            if k % 2 == 0 { "env" } else { "other" },
            &format!("g{}", k),
            we::EntityType::Global(we::GlobalType { val_type: g.ty, mutable: g.mutable, shared: false }),
        );
        any_import = true;
    }
    if any_import {
        m.section(&is);
    }

    if p.n_funcs > 0 || p.empty_sections {
        let mut fs = we::FunctionSection::new();
        for k in 0..p.n_funcs {
            fs.function(funcs[(n_imp_funcs + k) as usize]);
        }
        m.section(&fs);
    }
    if table_types.len() > table_i || p.empty_sections {
        let mut s = we::TableSection::new();
        for t in &table_types[table_i..] {
            s.table(*t);
        }
        m.section(&s);
    }
    if mem_types.len() > mem_i || p.empty_sections {
        let mut s = we::MemorySection::new();
        for t in &mem_types[mem_i..] {
            s.memory(*t);
        }
        m.section(&s);
    }
    if !global_inits.is_empty() || p.empty_sections {
        let mut s = we::GlobalSection::new();
        for (t, e) in &global_inits {
            s.global(*t, e);
        }
        m.section(&s);
    }
    // exports
    {
        let mut s = we::ExportSection::new();
        let mut n = 0;
        for f in 0..n_total_funcs {
            if rng.chance(1, 3) || (f == n_total_funcs - 1 && n == 0) {
                s.export(&format!("f{}", f), we::ExportKind::Func, f);
                n += 1;
            }
        }
        for (i, _) in mems.iter().enumerate() {
            if rng.bool() {
                s.export(&format!("m{}", i), we::ExportKind::Memory, i as u32);
                n += 1;
            }
        }
        for (i, _) in tables.iter().enumerate() {
            if rng.bool() {
                s.export(&format!("t{}", i), we::ExportKind::Table, i as u32);
                n += 1;
            }
        }
        for (i, _) in globals.iter().enumerate() {
            if rng.chance(1, 3) {
                s.export(&format!("g{}", i), we::ExportKind::Global, i as u32);
                n += 1;
            }
        }
        if n > 0 || p.empty_sections {
            m.section(&s);
        }
    }
    // start
    {
        let cands: Vec<u32> = (0..n_total_funcs).filter(|f| sigs[funcs[*f as usize] as usize] == (vec![], vec![])).collect();
        if !cands.is_empty() && rng.chance(1, 4) {
            m.section(&we::StartSection { function_index: *rng.pick(&cands) });
        }
    }
    if !elems.is_empty() || p.empty_sections {
        let mut s = we::ElementSection::new();
        for e in &elems {
            let els = match &e.exprs {
                Some((ext, items)) => we::Elements::Expressions(if *ext { we::RefType::EXTERNREF } else { we::RefType::FUNCREF }, items),
                None => we::Elements::Functions(&e.funcs),
            };
            match e.mode {
                0 => {
                    let table = if e.explicit_table || e.table != 0 { Some(e.table) } else { None };
                    s.active(table, &e.offset, els);
                }
                1 => {
                    s.passive(els);
                }
                _ => {
                    s.declared(els);
                }
            }
        }
        m.section(&s);
    }
    let need_count = recipe.passive_data > 0 || data_users > 0;
    if !data_segs.is_empty() && (need_count || (p.bulk && rng.bool())) {
        m.section(&we::DataCountSection { count: data_segs.len() as u32 });
    }
    if p.n_funcs > 0 || p.empty_sections {
        let mut cs = we::CodeSection::new();
        for b in &bodies {
            cs.function(b);
        }
        m.section(&cs);
    }
    if !data_segs.is_empty() || p.empty_sections {
        let mut s = we::DataSection::new();
        for (mode, bytes) in &data_segs {
            match mode {
                Some((mem, off)) => {
                    s.active(*mem, off, bytes.iter().copied());
                }
                None => {
                    s.passive(bytes.iter().copied());
                }
            }
        }
        m.section(&s);
    }
    // name section
    match p.names {
        1 | 2 | 4 => {
            let partial = p.names == 2;
            let broken = p.names == 4;
            let mut ns = we::NameSection::new();
            if !partial || rng.bool() {
                ns.module("gen-module");
            }
            let mut fm = we::NameMap::new();
            for f in 0..n_total_funcs {
                if !partial || rng.bool() {
                    fm.append(f, &format!("func_{}", f));
                }
            }
            if broken {
                fm.append(n_total_funcs + 3, "ghost_function");
            }
            ns.functions(&fm);
            let mut lm = we::IndirectNameMap::new();
            if broken {
                // what emscripten is known to leave behind: names for locals of imported functions
                for f in 0..n_imp_funcs {
                    let mut nm = we::NameMap::new();
                    nm.append(0, "imp_arg0");
                    nm.append(1, "");
                    nm.append(7, "imp_arg7");
                    lm.append(f, &nm);
                }
            }
            for k in 0..p.n_funcs {
                if partial && rng.bool() {
                    continue;
                }
                let sig = &sigs[funcs[(n_imp_funcs + k) as usize] as usize];
                let mut nm = we::NameMap::new();
                for (i, _) in sig.0.iter().enumerate() {
                    nm.append(i as u32, &format!("p{}", i));
                }
                if broken {
                    // a local that the function does not have (also for functions with no locals at all)
                    nm.append(sig.0.len() as u32 + 40, "ghost_local");
                }
                lm.append(n_imp_funcs + k, &nm);
            }
            if broken {
                let mut nm = we::NameMap::new();
                nm.append(0, "nobody");
                lm.append(n_total_funcs + 5, &nm);
            }
            ns.locals(&lm);
            if !partial {
                let mut tm = we::NameMap::new();
                for (i, _) in sigs.iter().enumerate() {
                    tm.append(i as u32, &format!("type_{}", i));
                }
                if broken {
                    tm.append(sigs.len() as u32 + 9, "ghost_type");
                }
                ns.types(&tm);
                let mut tbm = we::NameMap::new();
                for (i, _) in tables.iter().enumerate() {
                    tbm.append(i as u32, &format!("table_{}", i));
                }
                if broken {
                    tbm.append(tables.len() as u32 + 2, "ghost_table");
                }
                ns.tables(&tbm);
                let mut mm = we::NameMap::new();
                for (i, _) in mems.iter().enumerate() {
                    mm.append(i as u32, &format!("mem_{}", i));
                }
                if broken {
                    mm.append(mems.len() as u32 + 1, "ghost_memory");
                }
                ns.memories(&mm);
                let mut gm = we::NameMap::new();
                for (i, _) in globals.iter().enumerate() {
                    gm.append(i as u32, &format!("global_{}", i));
                }
                if broken {
                    gm.append(globals.len() as u32 + 4, "ghost_global");
                }
                ns.globals(&gm);
                let mut em = we::NameMap::new();
                for (i, _) in elems.iter().enumerate() {
                    em.append(i as u32, &format!("elem_{}", i));
                }
                if broken {
                    em.append(elems.len() as u32 + 6, "ghost_elem");
                }
                ns.elements(&em);
                let mut dm = we::NameMap::new();
                for (i, _) in data_segs.iter().enumerate() {
                    dm.append(i as u32, &format!("data_{}", i));
                }
                if broken {
                    dm.append(data_segs.len() as u32 + 8, "ghost_data");
                }
                ns.data(&dm);
            }
            m.section(&ns);
            recipe.has_name_section = true;
        }
        3 => {
            let glen = rng.range(1, 12) as usize;
            let garbage = rng.bytes(glen);
            m.section(&we::CustomSection { name: "name".into(), data: garbage.into() });
        }
        _ => {}
    }
    match p.producers {
        3 => {
            let mut ps = we::ProducersSection::new();
            let mut lang = we::ProducersField::new();
            lang.value("C11", "");
            lang.value("C++", "17");
            ps.field("language", &lang);
            let mut by = we::ProducersField::new();
            by.value("clang", "17.0.6");
            by.value("clang", "18.1.0");
            by.value("wasm-ld", "");
            if rng.bool() {
                by.value("walrus", "0.19.0");
                recipe.has_prior_walrus = true;
            }
            ps.field("processed-by", &by);
            // a field without any value is legal
            let sdk = we::ProducersField::new();
            ps.field("sdk", &sdk);
            m.section(&ps);
            recipe.has_producers = true;
        }
        1 | 2 => {
            let mut ps = we::ProducersSection::new();
            let mut lang = we::ProducersField::new();
            lang.value("Rust", "1.70");
            ps.field("language", &lang);
            let mut by = we::ProducersField::new();
            by.value("rustc", "1.70.0");
            if p.producers == 2 {
                by.value("walrus", "0.1.0");
                recipe.has_prior_walrus = true;
            }
            by.value("wasm-bindgen", "0.2.87");
            ps.field("processed-by", &by);
            if rng.bool() {
                let mut sdk = we::ProducersField::new();
                sdk.value("emscripten", "3.1");
                ps.field("sdk", &sdk);
            }
            m.section(&ps);
            recipe.has_producers = true;
        }
        _ => {}
    }
    let mut bytes = m.finish();

    // unknown custom sections at random section boundaries
    for _ in 0..p.n_customs {
        let name = *rng.pick(CUSTOM_NAMES);
        let len = boundary_len(&mut rng);
        let data = rng.bytes(len);
        let sec = crate::wasmsplit::custom_section_bytes(name.as_bytes(), &data);
        let nsec = crate::wasmsplit::split(&bytes).map(|s| s.len()).unwrap_or(0);
        let at = rng.usize_below(nsec + 1);
        if let Some(b) = crate::wasmsplit::insert_section(&bytes, at, &sec) {
            bytes = b;
            recipe.n_unknown_customs += 1;
        }
    }
    Generated { bytes, recipe }
}
