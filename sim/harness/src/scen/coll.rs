// Collection histories (C17).  Included into scen::coll.
//
// Real walrus collections and a map/vector reference model side by side; the
// invariants of the property are evaluated after EVERY step:
//   * a live id resolves to the item it was created for;
//   * a dead id is refused (panic or None) and the refusal changes nothing;
//   * a fresh id differs from every id ever issued by that collection;
//   * iteration yields exactly the live items in creation order;
//   * adding a present function type returns the existing id.
use super::walrus;
use crate::types::*;
use std::panic::{catch_unwind, AssertUnwindSafe};
use walrus::{ConstExpr, ElementItems, ElementKind, FunctionBuilder, Module, RawCustomSection, RefType, ValType};

const SIG_POOL: &[(&[ValType], &[ValType])] = &[
    (&[], &[]),
    (&[ValType::I32], &[]),
    (&[ValType::I32], &[ValType::I32]),
    (&[ValType::I64, ValType::I64], &[ValType::I64]),
    (&[], &[ValType::F64]),
    (&[ValType::F32], &[ValType::F32, ValType::F32]),
];

struct Track<I> {
    ids: Vec<I>,
    alive: Vec<bool>,
    fp: Vec<String>,
}

impl<I> Default for Track<I> {
    fn default() -> Self {
        Track { ids: Vec::new(), alive: Vec::new(), fp: Vec::new() }
    }
}

impl<I: Copy + PartialEq> Track<I> {
    /// register a fresh id; Err if it was ever issued before
    fn add(&mut self, id: I, fp: String) -> Result<(), String> {
        if let Some(k) = self.ids.iter().position(|x| *x == id) {
            return Err(format!("the new id equals id #{} issued earlier (alive={})", k, self.alive[k]));
        }
        self.ids.push(id);
        self.alive.push(true);
        self.fp.push(fp);
        Ok(())
    }
    fn live_fps(&self) -> Vec<String> {
        self.fp.iter().zip(self.alive.iter()).filter(|(_, a)| **a).map(|(f, _)| f.clone()).collect()
    }
    fn live_ids(&self) -> Vec<I> {
        self.ids.iter().zip(self.alive.iter()).filter(|(_, a)| **a).map(|(i, _)| *i).collect()
    }
    fn hash(&self) -> u64 {
        let mut h = 0xcbf29ce484222325u64;
        for (f, a) in self.fp.iter().zip(self.alive.iter()) {
            h = (h ^ crate::prng::fnv(f.as_bytes()) ^ (*a as u64)).wrapping_mul(0x100000001b3);
        }
        h
    }
}

#[derive(Clone, PartialEq, Eq, Debug)]
struct TypeKey {
    sig: usize,
    entry: bool,
}

struct Mod {
    m: Module,
    types: Track<walrus::TypeId>,
    type_keys: Vec<TypeKey>,
    type_names: Vec<Option<String>>,
    funcs: Track<walrus::FunctionId>,
    func_local: Vec<bool>,
    globals: Track<walrus::GlobalId>,
    memories: Track<walrus::MemoryId>,
    tables: Track<walrus::TableId>,
    data: Track<walrus::DataId>,
    elements: Track<walrus::ElementId>,
    exports: Track<walrus::ExportId>,
    imports: Track<walrus::ImportId>,
    locals: Track<walrus::LocalId>,
    customs: Track<walrus::UntypedCustomSectionId>,
    /// parallel to customs.ids: is the section a RawCustomSection?
    custom_raw: Vec<bool>,
    custom_payload: Vec<Vec<u8>>,
    /// per import slot: the function it imports (None: a memory import)
    import_func: Vec<Option<walrus::FunctionId>>,
    /// per table slot: is it a funcref table
    table_is_func: Vec<bool>,
    /// per export slot: the function it exports (None: another kind)
    export_func: Vec<Option<walrus::FunctionId>>,
    counter: u32,
}

fn type_fp(sig: usize, entry: bool) -> String {
    let (p, r) = SIG_POOL[sig];
    if entry {
        format!("{:?}->{:?}", &[] as &[ValType], r)
    } else {
        format!("{:?}->{:?}", p, r)
    }
}

fn entry_results_equal(a: usize, b: usize) -> bool {
    SIG_POOL[a].1 == SIG_POOL[b].1
}

/// Ok(v) if the call returned, Err(()) if it panicked (= explicit refusal).
fn refused<T>(f: impl FnOnce() -> T) -> Result<T, ()> {
    catch_unwind(AssertUnwindSafe(f)).map_err(|_| ())
}

struct Fail {
    oracle: &'static str,
    detail: String,
}

type R = Result<(), Fail>;

fn fail(oracle: &'static str, detail: String) -> R {
    Err(Fail { oracle, detail })
}

impl Mod {
    fn new() -> Mod {
        Mod {
            m: Module::default(),
            types: Track::default(),
            type_keys: Vec::new(),
            type_names: Vec::new(),
            funcs: Track::default(),
            func_local: Vec::new(),
            globals: Track::default(),
            memories: Track::default(),
            tables: Track::default(),
            data: Track::default(),
            elements: Track::default(),
            exports: Track::default(),
            imports: Track::default(),
            locals: Track::default(),
            customs: Track::default(),
            custom_raw: Vec::new(),
            custom_payload: Vec::new(),
            import_func: Vec::new(),
            table_is_func: Vec::new(),
            export_func: Vec::new(),
            counter: 0,
        }
    }

    fn next(&mut self) -> u32 {
        self.counter += 1;
        self.counter
    }

    // ---- types -----------------------------------------------------------

    fn live_type_with(&self, key: &TypeKey) -> Option<usize> {
        self.type_keys.iter().enumerate().position(|(k, t)| {
            self.types.alive[k]
                && t.entry == key.entry
                && if key.entry { entry_results_equal(t.sig, key.sig) } else { SIG_POOL[t.sig] == SIG_POOL[key.sig] }
        })
    }

    /// the model's bookkeeping for "a type with this key was requested and walrus answered `id`"
    fn note_type(&mut self, key: TypeKey, id: walrus::TypeId, counters: &mut Vec<(String, u64)>) -> R {
        match self.live_type_with(&key) {
            Some(k) => {
                bump(counters, "type_dedup_hit");
                if self.types.ids[k] != id {
                    return fail("type_add_returns_existing", format!("adding a present signature ({}) returned a different id than the live one (#{})", type_fp(key.sig, key.entry), k));
                }
                Ok(())
            }
            None => {
                if self.type_keys.iter().enumerate().any(|(k, t)| !self.types.alive[k] && *t == key) {
                    bump(counters, "type_readded_after_delete");
                }
                let fp = type_fp(key.sig, key.entry);
                if let Err(e) = self.types.add(id, fp) {
                    return fail("id_never_reused", format!("types: {}", e));
                }
                // user-visible (non-entry) types get a debug name; some share one on purpose
                let name = if key.entry {
                    None
                } else {
                    let k = self.types.ids.len();
                    Some(if k % 4 == 3 { "dupty".to_string() } else { format!("ty{}", k) })
                };
                if let Some(n) = &name {
                    self.m.types.get_mut(id).name = Some(n.clone());
                }
                self.type_names.push(name);
                self.type_keys.push(key);
                Ok(())
            }
        }
    }

    /// after FunctionBuilder::new the entry type's id is not returned to the caller:
    /// read it off the iteration (it must be the newest live type if it was created)
    fn note_entry_type(&mut self, sig: usize, counters: &mut Vec<(String, u64)>) -> R {
        let key = TypeKey { sig, entry: true };
        if self.live_type_with(&key).is_some() {
            bump(counters, "type_dedup_hit");
            return Ok(());
        }
        let seen: Vec<walrus::TypeId> = self.m.types.iter().map(|t| t.id()).collect();
        let known = self.types.live_ids();
        let fresh: Vec<walrus::TypeId> = seen.iter().filter(|i| !known.contains(i)).cloned().collect();
        if fresh.len() != 1 {
            return fail("iter_is_live_in_creation_order", format!("types: expected exactly one new (entry) type after FunctionBuilder::new, iteration shows {}", fresh.len()));
        }
        self.note_type(key, fresh[0], counters)
    }

    fn check_types(&self) -> R {
        let got: Vec<(walrus::TypeId, String)> = self.m.types.iter().map(|t| (t.id(), format!("{:?}->{:?}", t.params(), t.results()))).collect();
        let want_ids = self.types.live_ids();
        let want_fps = self.types.live_fps();
        if got.iter().map(|g| g.0).collect::<Vec<_>>() != want_ids || got.iter().map(|g| g.1.clone()).collect::<Vec<_>>() != want_fps {
            return fail("iter_is_live_in_creation_order", format!("types: iteration yields {} items {:?}, the model has {} live {:?}", got.len(), got.iter().map(|g| &g.1).collect::<Vec<_>>(), want_ids.len(), want_fps));
        }
        for (k, id) in self.types.ids.iter().enumerate() {
            if self.types.alive[k] {
                let t = self.m.types.get(*id);
                let fp = format!("{:?}->{:?}", t.params(), t.results());
                if fp != self.types.fp[k] || t.id() != *id {
                    return fail("live_id_resolves_to_its_item", format!("types: id #{} resolves to {} but was created for {}", k, fp, self.types.fp[k]));
                }
            }
        }
        Ok(())
    }
}

fn bump(c: &mut Vec<(String, u64)>, k: &str) {
    if let Some(e) = c.iter_mut().find(|(n, _)| n == k) {
        e.1 += 1;
    } else {
        c.push((k.to_string(), 1));
    }
}

/// Generic per-collection check: iteration == live model in order; every live id resolves to its own item.
macro_rules! check_coll {
    ($self:ident, $name:expr, $track:ident, $iter:expr, $get:expr) => {{
        let got: Vec<(_, String)> = $iter;
        let want_ids = $self.$track.live_ids();
        let want_fps = $self.$track.live_fps();
        if got.iter().map(|g| g.0).collect::<Vec<_>>() != want_ids || got.iter().map(|g| g.1.clone()).collect::<Vec<_>>() != want_fps {
            return fail(
                "iter_is_live_in_creation_order",
                format!("{}: iteration yields {:?}, the model's live items in creation order are {:?}", $name, got.iter().map(|g| g.1.clone()).collect::<Vec<_>>(), want_fps),
            );
        }
        for (k, id) in $self.$track.ids.iter().enumerate() {
            if $self.$track.alive[k] {
                let fp: String = ($get)(*id);
                if fp != $self.$track.fp[k] {
                    return fail("live_id_resolves_to_its_item", format!("{}: id #{} resolves to {:?} but was created for {:?}", $name, k, fp, $self.$track.fp[k]));
                }
            }
        }
    }};
}

impl Mod {
    /// the mutable iterators must yield exactly what the shared ones yield
    fn check_iter_mut(&mut self) -> R {
        macro_rules! same {
            ($name:expr, $shared:expr, $mutable:expr) => {{
                let a: Vec<usize> = $shared;
                let b: Vec<usize> = $mutable;
                if a != b {
                    return fail("iter_is_live_in_creation_order", format!("{}: iter_mut yields items #{:?} but iter yields #{:?}", $name, b, a));
                }
            }};
        }
        same!("funcs", self.m.funcs.iter().map(|f| f.id().index()).collect(), self.m.funcs.iter_mut().map(|f| f.id().index()).collect());
        same!("funcs(local)", self.m.funcs.iter_local().map(|(id, _)| id.index()).collect(), self.m.funcs.iter_local_mut().map(|(id, _)| id.index()).collect());
        same!("memories", self.m.memories.iter().map(|f| f.id().index()).collect(), self.m.memories.iter_mut().map(|f| f.id().index()).collect());
        same!("tables", self.m.tables.iter().map(|f| f.id().index()).collect(), self.m.tables.iter_mut().map(|f| f.id().index()).collect());
        same!("elements", self.m.elements.iter().map(|f| f.id().index()).collect(), self.m.elements.iter_mut().map(|f| f.id().index()).collect());
        same!("exports", self.m.exports.iter().map(|f| f.id().index()).collect(), self.m.exports.iter_mut().map(|f| f.id().index()).collect());
        same!("imports", self.m.imports.iter().map(|f| f.id().index()).collect(), self.m.imports.iter_mut().map(|f| f.id().index()).collect());
        {
            let a: Vec<String> = self.m.customs.iter().map(|(_, s)| s.name().to_string()).collect();
            let b: Vec<String> = self.m.customs.iter_mut().map(|(_, s)| s.name().to_string()).collect();
            if a != b {
                return fail("iter_is_live_in_creation_order", format!("customs: iter_mut yields {:?} but iter yields {:?}", b, a));
            }
        }
        Ok(())
    }

    fn check_all(&self) -> R {
        self.check_types()?;
        let m = &self.m;
        check_coll!(self, "funcs", funcs, m.funcs.iter().map(|f| (f.id(), format!("{:?}", f.name))).collect(), |id| format!("{:?}", m.funcs.get(id).name));
        {
            // iter_local: exactly the live local functions, in creation order
            let got: Vec<walrus::FunctionId> = m.funcs.iter_local().map(|(id, _)| id).collect();
            let want: Vec<walrus::FunctionId> =
                self.funcs.ids.iter().enumerate().filter(|(k, _)| self.funcs.alive[*k] && self.func_local[*k]).map(|(_, i)| *i).collect();
            if got != want {
                return fail("iter_is_live_in_creation_order", format!("funcs.iter_local yields {} items, the model has {} live local functions", got.len(), want.len()));
            }
        }
        check_coll!(self, "globals", globals, m.globals.iter().map(|g| (g.id(), format!("{:?}", g.name))).collect(), |id| format!("{:?}", m.globals.get(id).name));
        check_coll!(self, "memories", memories, m.memories.iter().map(|g| (g.id(), format!("{}", g.initial))).collect(), |id| format!("{}", m.memories.get(id).initial));
        if m.memories.len() != self.memories.live_ids().len() || m.memories.is_empty() != self.memories.live_ids().is_empty() {
            return fail("iter_is_live_in_creation_order", format!("memories.len() = {} but the model has {} live", m.memories.len(), self.memories.live_ids().len()));
        }
        check_coll!(self, "tables", tables, m.tables.iter().map(|g| (g.id(), format!("{}", g.initial))).collect(), |id| format!("{}", m.tables.get(id).initial));
        check_coll!(self, "data", data, m.data.iter().map(|g| (g.id(), format!("{:?}", g.name))).collect(), |id| format!("{:?}", m.data.get(id).name));
        check_coll!(self, "elements", elements, m.elements.iter().map(|g| (g.id(), format!("{:?}", g.name))).collect(), |id| format!("{:?}", m.elements.get(id).name));
        check_coll!(self, "exports", exports, m.exports.iter().map(|g| (g.id(), g.name.clone())).collect(), |id| m.exports.get(id).name.clone());
        check_coll!(self, "imports", imports, m.imports.iter().map(|g| (g.id(), format!("{}.{}", g.module, g.name))).collect(), |id| {
            let i = m.imports.get(id);
            format!("{}.{}", i.module, i.name)
        });
        check_coll!(self, "locals", locals, m.locals.iter().map(|g| (g.id(), format!("{:?}", g.name))).collect(), |id| format!("{:?}", m.locals.get(id).name));
        {
            let got: Vec<(walrus::UntypedCustomSectionId, String)> = m.customs.iter().map(|(id, s)| (id, s.name().to_string())).collect();
            if got.iter().map(|g| g.0).collect::<Vec<_>>() != self.customs.live_ids() || got.iter().map(|g| g.1.clone()).collect::<Vec<_>>() != self.customs.live_fps() {
                return fail("iter_is_live_in_creation_order", format!("customs: iteration yields {:?}, the model has {:?}", got.iter().map(|g| &g.1).collect::<Vec<_>>(), self.customs.live_fps()));
            }
            for (k, id) in self.customs.ids.iter().enumerate() {
                match (self.customs.alive[k], m.customs.get(*id)) {
                    (true, Some(s)) if s.name() == self.customs.fp[k] => {}
                    (false, None) => {}
                    (alive, got) => {
                        return fail(
                            if alive { "live_id_resolves_to_its_item" } else { "dead_id_is_refused" },
                            format!("customs: id #{} (alive={}) resolves to {:?}, created for {:?}", k, alive, got.map(|s| s.name().to_string()), self.customs.fp[k]),
                        )
                    }
                }
            }
        }
        Ok(())
    }

    fn model_hash(&self) -> u64 {
        let mut h = self.types.hash();
        for x in [
            self.funcs.hash(),
            self.globals.hash(),
            self.memories.hash(),
            self.tables.hash(),
            self.data.hash(),
            self.elements.hash(),
            self.exports.hash(),
            self.imports.hash(),
            self.locals.hash(),
            self.customs.hash(),
        ] {
            h = crate::prng::mix64(h, x);
        }
        h
    }
}

/// a dead id must be refused: the call panics (or returns None); returning normally is a violation
macro_rules! must_refuse {
    ($what:expr, $call:expr, $counters:expr) => {{
        match refused(|| $call) {
            Err(()) => {
                bump($counters, concat!("dead_id_refused:", $what));
            }
            Ok(_) => return fail("dead_id_is_refused", format!("{} on a deleted id returned normally", $what)),
        }
    }};
}

fn add_op(md: &mut Mod, coll: CollKind, arg: u32, counters: &mut Vec<(String, u64)>) -> R {
    let k = md.next();
    match coll {
        CollKind::Types => {
            let sig = arg as usize % SIG_POOL.len();
            let (p, r) = SIG_POOL[sig];
            let id = md.m.types.add(p, r);
            md.note_type(TypeKey { sig, entry: false }, id, counters)?;
        }
        CollKind::Funcs => {
            let sig = (arg / 3) as usize % SIG_POOL.len();
            let (p, r) = SIG_POOL[sig];
            let name = if arg % 7 == 6 { "dupfn".to_string() } else { format!("fn{}", k) };
            if arg % 3 == 0 {
                let ty = md.m.types.add(p, r);
                md.note_type(TypeKey { sig, entry: false }, ty, counters)?;
                let impname = if arg % 5 == 0 { "dupimp".to_string() } else { format!("imp{}", k) };
                let (f, imp) = md.m.add_import_func("env", &impname, ty);
                md.m.funcs.get_mut(f).name = Some(name.clone());
                if let Err(e) = md.funcs.add(f, format!("{:?}", Some(&name))) {
                    return fail("id_never_reused", format!("funcs: {}", e));
                }
                md.func_local.push(false);
                if let Err(e) = md.imports.add(imp, format!("env.{}", impname)) {
                    return fail("id_never_reused", format!("imports: {}", e));
                }
                md.import_func.push(Some(f));
            } else {
                let mut b = FunctionBuilder::new(&mut md.m.types, p, r);
                b.name(name.clone());
                {
                    let mut body = b.func_body();
                    for t in r {
                        match t {
                            ValType::I32 => {
                                body.i32_const(0);
                            }
                            ValType::I64 => {
                                body.i64_const(0);
                            }
                            ValType::F32 => {
                                body.f32_const(0.0);
                            }
                            _ => {
                                body.f64_const(0.0);
                            }
                        }
                    }
                }
                let args: Vec<walrus::LocalId> = p.iter().map(|t| md.m.locals.add(*t)).collect();
                for (n, a) in args.iter().enumerate() {
                    let lname = format!("lo{}_{}", k, n);
                    md.m.locals.get_mut(*a).name = Some(lname.clone());
                    if let Err(e) = md.locals.add(*a, format!("{:?}", Some(&lname))) {
                        return fail("id_never_reused", format!("locals: {}", e));
                    }
                }
                let lf = b.local_func(args);
                let fty = lf.ty();
                md.note_type(TypeKey { sig, entry: false }, fty, counters)?;
                md.note_entry_type(sig, counters)?;
                let f = md.m.funcs.add_local(lf);
                if let Err(e) = md.funcs.add(f, format!("{:?}", Some(&name))) {
                    return fail("id_never_reused", format!("funcs: {}", e));
                }
                md.func_local.push(true);
            }
        }
        CollKind::Globals => {
            let name = format!("gl{}", k);
            let id = if arg % 4 == 0 {
                let (g, imp) = md.m.add_import_global("env", &format!("gimp{}", k), ValType::I64, false, false);
                if let Err(e) = md.imports.add(imp, format!("env.gimp{}", k)) {
                    return fail("id_never_reused", format!("imports: {}", e));
                }
                md.import_func.push(None);
                g
            } else {
                md.m.globals.add_local(ValType::I64, arg % 2 == 0, false, ConstExpr::Value(walrus::ir::Value::I64(k as i64)))
            };
            md.m.globals.get_mut(id).name = Some(name.clone());
            if let Err(e) = md.globals.add(id, format!("{:?}", Some(&name))) {
                return fail("id_never_reused", format!("globals: {}", e));
            }
        }
        CollKind::Memories => {
            let id = md.m.memories.add_local(false, arg % 3 == 0, k as u64, None, None);
            if let Err(e) = md.memories.add(id, format!("{}", k)) {
                return fail("id_never_reused", format!("memories: {}", e));
            }
        }
        CollKind::Tables => {
            let id = md.m.tables.add_local(false, k as u64, None, if arg % 2 == 0 { RefType::Funcref } else { RefType::Externref });
            if let Err(e) = md.tables.add(id, format!("{}", k)) {
                return fail("id_never_reused", format!("tables: {}", e));
            }
            md.table_is_func.push(arg % 2 == 0);
        }
        CollKind::Data => {
            let name = format!("da{}", k);
            let id = md.m.data.add(walrus::DataKind::Passive, k.to_le_bytes().to_vec());
            md.m.data.get_mut(id).name = Some(name.clone());
            if let Err(e) = md.data.add(id, format!("{:?}", Some(&name))) {
                return fail("id_never_reused", format!("data: {}", e));
            }
        }
        CollKind::Elements => {
            let name = format!("el{}", k);
            let id = md.m.elements.add(ElementKind::Passive, ElementItems::Expressions(RefType::Externref, vec![ConstExpr::RefNull(RefType::Externref); (arg % 3) as usize]));
            md.m.elements.get_mut(id).name = Some(name.clone());
            if let Err(e) = md.elements.add(id, format!("{:?}", Some(&name))) {
                return fail("id_never_reused", format!("elements: {}", e));
            }
        }
        CollKind::Exports => {
            // export some live item (exports may dangle later: nothing is emitted in this check)
            let name = if arg % 4 == 3 { "dupex".to_string() } else { format!("ex{}", k) };
            // the exported kind varies (a global and a function may share an export name in a history, although a
            // module with both could not be emitted: nothing is emitted in this check)
            let order: [u8; 4] = match (arg / 4) % 4 {
                0 => [0, 1, 2, 3],
                1 => [1, 0, 2, 3],
                2 => [2, 1, 0, 3],
                _ => [0, 3, 1, 2],
            };
            let mut made: Option<(walrus::ExportId, Option<walrus::FunctionId>)> = None;
            for kind in order {
                made = match kind {
                    0 => md.funcs.live_ids().first().map(|f| (md.m.exports.add(&name, *f), Some(*f))),
                    1 => md.globals.live_ids().first().map(|g| (md.m.exports.add(&name, *g), None)),
                    2 => md.memories.live_ids().first().map(|x| (md.m.exports.add(&name, *x), None)),
                    _ => md.tables.live_ids().first().map(|x| (md.m.exports.add(&name, *x), None)),
                };
                if made.is_some() {
                    break;
                }
            }
            let Some((id, func)) = made else { return Ok(()) };
            md.export_func.push(func);
            if let Err(e) = md.exports.add(id, name) {
                return fail("id_never_reused", format!("exports: {}", e));
            }
        }
        CollKind::Imports => {
            // some memory imports share their (module, name) pair with function imports (legal wasm)
            let impname = if arg % 4 == 0 { "dupimp".to_string() } else { format!("mimp{}", k) };
            let (mem, imp) = md.m.add_import_memory("env", &impname, false, false, k as u64, None, None);
            if let Err(e) = md.imports.add(imp, format!("env.{}", impname)) {
                return fail("id_never_reused", format!("imports: {}", e));
            }
            md.import_func.push(None);
            if let Err(e) = md.memories.add(mem, format!("{}", k)) {
                return fail("id_never_reused", format!("memories: {}", e));
            }
        }
        CollKind::Locals => {
            let name = format!("lo{}", k);
            let id = md.m.locals.add(if arg % 2 == 0 { ValType::I32 } else { ValType::F64 });
            md.m.locals.get_mut(id).name = Some(name.clone());
            if let Err(e) = md.locals.add(id, format!("{:?}", Some(&name))) {
                return fail("id_never_reused", format!("locals: {}", e));
            }
        }
        CollKind::Customs => {
            // raw and user-typed sections, some sharing a name (the documented take-raw / re-add-typed workflow)
            let name = if arg % 3 == 2 { "cushared".to_string() } else { format!("cu{}", k) };
            let id: walrus::UntypedCustomSectionId = if arg % 2 == 0 {
                md.custom_raw.push(true);
                md.custom_payload.push(vec![k as u8]);
                md.m.customs.add(RawCustomSection { name: name.clone(), data: vec![k as u8] }).into()
            } else {
                md.custom_raw.push(false);
                md.custom_payload.push(vec![k as u8, 1]);
                md.m.customs.add(super::TypedSec { name: name.clone(), payload: vec![k as u8, 1] }).into()
            };
            if let Err(e) = md.customs.add(id, name) {
                return fail("id_never_reused", format!("customs: {}", e));
            }
        }
    }
    Ok(())
}

macro_rules! delete_in {
    ($md:ident, $track:ident, $nth:expr, $what:expr, $counters:ident, $del:expr) => {{
        if $md.$track.ids.is_empty() {
            return Ok(());
        }
        let k = $nth as usize % $md.$track.ids.len();
        let id = $md.$track.ids[k];
        if $md.$track.alive[k] {
            ($del)(&mut $md.m, id);
            $md.$track.alive[k] = false;
            bump($counters, concat!("deleted:", $what));
        } else {
            // injected fault: delete again through a dead id
            let m = &mut $md.m;
            must_refuse!(concat!($what, ".delete"), ($del)(m, id), $counters);
        }
    }};
}

fn delete_op(md: &mut Mod, coll: CollKind, nth: u32, counters: &mut Vec<(String, u64)>) -> R {
    match coll {
        CollKind::Types => delete_in!(md, types, nth, "types", counters, |m: &mut Module, id| m.types.delete(id)),
        CollKind::Funcs => delete_in!(md, funcs, nth, "funcs", counters, |m: &mut Module, id| m.funcs.delete(id)),
        CollKind::Globals => delete_in!(md, globals, nth, "globals", counters, |m: &mut Module, id| m.globals.delete(id)),
        CollKind::Memories => delete_in!(md, memories, nth, "memories", counters, |m: &mut Module, id| m.memories.delete(id)),
        CollKind::Tables => delete_in!(md, tables, nth, "tables", counters, |m: &mut Module, id| m.tables.delete(id)),
        CollKind::Data => delete_in!(md, data, nth, "data", counters, |m: &mut Module, id| m.data.delete(id)),
        CollKind::Elements => delete_in!(md, elements, nth, "elements", counters, |m: &mut Module, id| m.elements.delete(id)),
        CollKind::Exports => delete_in!(md, exports, nth, "exports", counters, |m: &mut Module, id| m.exports.delete(id)),
        CollKind::Imports => delete_in!(md, imports, nth, "imports", counters, |m: &mut Module, id| m.imports.delete(id)),
        CollKind::Locals => {}
        CollKind::Customs => {
            if md.customs.ids.is_empty() {
                return Ok(());
            }
            let k = nth as usize % md.customs.ids.len();
            let id = md.customs.ids[k];
            let r = md.m.customs.delete(id);
            match (md.customs.alive[k], r) {
                (true, Some(s)) if s.name() == md.customs.fp[k] => {
                    md.customs.alive[k] = false;
                    bump(counters, "deleted:customs");
                }
                (false, None) => bump(counters, "dead_id_refused:customs.delete"),
                (alive, got) => {
                    return fail(
                        if alive { "live_id_resolves_to_its_item" } else { "dead_id_is_refused" },
                        format!("customs.delete of id #{} (alive={}) returned {:?}", k, alive, got.map(|s| s.name().to_string())),
                    )
                }
            }
        }
    }
    Ok(())
}

macro_rules! get_in {
    ($md:ident, $track:ident, $nth:expr, $what:expr, $counters:ident, $get:expr, $get_mut:expr) => {{
        if $md.$track.ids.is_empty() {
            return Ok(());
        }
        let k = $nth as usize % $md.$track.ids.len();
        let id = $md.$track.ids[k];
        if !$md.$track.alive[k] {
            let m = &mut $md.m;
            must_refuse!(concat!($what, ".get"), ($get)(&*m, id), $counters);
            must_refuse!(concat!($what, ".get_mut"), ($get_mut)(m, id), $counters);
        }
    }};
}

fn get_op(md: &mut Mod, coll: CollKind, nth: u32, counters: &mut Vec<(String, u64)>) -> R {
    match coll {
        CollKind::Types => {
            get_in!(md, types, nth, "types", counters, |m: &Module, id| m.types.get(id).params().len(), |m: &mut Module, id| m.types.get_mut(id).name.is_some());
            // params()/results()/params_results() go through the same lookup
            if !md.types.ids.is_empty() {
                let k = nth as usize % md.types.ids.len();
                let id = md.types.ids[k];
                if !md.types.alive[k] {
                    let m = &md.m;
                    must_refuse!("types.params", m.types.params(id).len(), counters);
                    must_refuse!("types.results", m.types.results(id).len(), counters);
                }
            }
        }
        CollKind::Funcs => get_in!(md, funcs, nth, "funcs", counters, |m: &Module, id| m.funcs.get(id).name.is_some(), |m: &mut Module, id| m.funcs.get_mut(id).name.is_some()),
        CollKind::Globals => get_in!(md, globals, nth, "globals", counters, |m: &Module, id| m.globals.get(id).mutable, |m: &mut Module, id| m.globals.get_mut(id).mutable),
        CollKind::Memories => get_in!(md, memories, nth, "memories", counters, |m: &Module, id| m.memories.get(id).initial, |m: &mut Module, id| m.memories.get_mut(id).initial),
        CollKind::Tables => get_in!(md, tables, nth, "tables", counters, |m: &Module, id| m.tables.get(id).initial, |m: &mut Module, id| m.tables.get_mut(id).initial),
        CollKind::Data => get_in!(md, data, nth, "data", counters, |m: &Module, id| m.data.get(id).value.len(), |m: &mut Module, id| m.data.get_mut(id).value.len()),
        CollKind::Elements => get_in!(md, elements, nth, "elements", counters, |m: &Module, id| m.elements.get(id).name.is_some(), |m: &mut Module, id| m.elements.get_mut(id).name.is_some()),
        CollKind::Exports => get_in!(md, exports, nth, "exports", counters, |m: &Module, id| m.exports.get(id).name.len(), |m: &mut Module, id| m.exports.get_mut(id).name.len()),
        CollKind::Imports => get_in!(md, imports, nth, "imports", counters, |m: &Module, id| m.imports.get(id).name.len(), |m: &mut Module, id| m.imports.get_mut(id).name.len()),
        CollKind::Locals | CollKind::Customs => {}
    }
    Ok(())
}

fn find_op(md: &mut Mod, coll: CollKind, arg: u32, counters: &mut Vec<(String, u64)>) -> R {
    match coll {
        CollKind::Types => {
            let sig = arg as usize % SIG_POOL.len();
            let (p, r) = SIG_POOL[sig];
            let want = md.live_type_with(&TypeKey { sig, entry: false }).map(|k| md.types.ids[k]);
            let got = md.m.types.find(p, r);
            if want != got {
                return fail("finder_agrees_with_model", format!("types.find({}) = {:?}, the model says {:?}", type_fp(sig, false), got.map(|i| i.index()), want.map(|i| i.index())));
            }
            bump(counters, if got.is_some() { "find_hit:types" } else { "find_miss:types" });
            // by_name: the first live type carrying that debug name
            if !md.type_names.is_empty() {
                let k = arg as usize % md.type_names.len();
                if let Some(n) = md.type_names[k].clone() {
                    let first = (0..md.type_names.len()).find(|j| md.types.alive[*j] && md.type_names[*j].as_deref() == Some(n.as_str()));
                    let want = first.map(|j| md.types.ids[j]);
                    let got = md.m.types.by_name(&n);
                    if want != got {
                        return fail("finder_agrees_with_model", format!("types.by_name({:?}) = {:?}, the model says {:?}", n, got.map(|i| i.index()), want.map(|i| i.index())));
                    }
                }
            }
        }
        CollKind::Funcs => {
            if md.funcs.fp.is_empty() {
                return Ok(());
            }
            let k = arg as usize % md.funcs.fp.len();
            // fingerprints are Debug of Option<&String>: Some("fnN")
            let name = md.funcs.fp[k].trim_start_matches("Some(\"").trim_end_matches("\")").to_string();
            // names may be shared: the finder returns the FIRST live function with that name
            let first = (0..md.funcs.fp.len()).find(|j| md.funcs.alive[*j] && md.funcs.fp[*j] == md.funcs.fp[k]);
            let want = first.map(|j| md.funcs.ids[j]);
            let got = md.m.funcs.by_name(&name);
            if want != got {
                return fail("finder_agrees_with_model", format!("funcs.by_name({:?}) = {:?}, the model says {:?} (first live of that name)", name, got.map(|i| i.index()), want.map(|i| i.index())));
            }
            bump(counters, if got.is_some() { "find_hit:funcs" } else { "find_miss_after_delete:funcs" });
        }
        CollKind::Exports => {
            if md.exports.fp.is_empty() {
                return Ok(());
            }
            let k = arg as usize % md.exports.fp.len();
            let name = md.exports.fp[k].clone();
            let first = (0..md.exports.fp.len()).find(|j| md.exports.alive[*j] && md.exports.fp[*j] == name);
            // get_func(name): the first live FUNCTION export of that name, whatever other kinds carry the name
            let want_f = (0..md.exports.fp.len()).find(|j| md.exports.alive[*j] && md.exports.fp[*j] == name && md.export_func[*j].is_some()).and_then(|j| md.export_func[j]);
            let got_f = md.m.exports.get_func(&name).ok();
            if want_f != got_f {
                return fail("finder_agrees_with_model", format!("exports.get_func({:?}) = {:?}, the model's first live function export of that name is {:?}", name, got_f.map(|i| i.index()), want_f.map(|i| i.index())));
            }
            if arg % 5 == 0 {
                // remove by name: deletes exactly the FIRST live export of that name, or reports an error and changes nothing
                let r = md.m.exports.remove(&name);
                if first.is_some() != r.is_ok() {
                    return fail("finder_agrees_with_model", format!("exports.remove({:?}) returned ok={} but the model has a live export of that name: {}", name, r.is_ok(), first.is_some()));
                }
                if let Some(j) = first {
                    md.exports.alive[j] = false;
                }
            } else {
                let live = first.is_some();
                let got = md.m.exports.iter().any(|e| e.name == name);
                if got != live {
                    return fail("finder_agrees_with_model", format!("export named {:?}: present={} but the model says alive={}", name, got, live));
                }
            }
        }
        CollKind::Imports => {
            if md.imports.fp.is_empty() {
                return Ok(());
            }
            let k = arg as usize % md.imports.fp.len();
            let (module, name) = md.imports.fp[k].split_once('.').map(|(a, b)| (a.to_string(), b.to_string())).unwrap_or_default();
            let first = (0..md.imports.fp.len()).find(|j| md.imports.alive[*j] && md.imports.fp[*j] == md.imports.fp[k]);
            let want = first.map(|j| md.imports.ids[j]);
            let got = md.m.imports.find(&module, &name);
            if want != got {
                return fail("finder_agrees_with_model", format!("imports.find({:?},{:?}) = {:?}, the model says {:?}", module, name, got.map(|i| i.index()), want.map(|i| i.index())));
            }
            bump(counters, if got.is_some() { "find_hit:imports" } else { "find_miss_after_delete:imports" });
            // get_func: the first live FUNCTION import of that pair, whatever other kinds share the pair
            let want_f = (0..md.imports.fp.len()).find(|j| md.imports.alive[*j] && md.imports.fp[*j] == md.imports.fp[k] && md.import_func[*j].is_some()).and_then(|j| md.import_func[j]);
            let got_f = md.m.imports.get_func(&module, &name).ok();
            if want_f != got_f {
                return fail("finder_agrees_with_model", format!("imports.get_func({:?},{:?}) = {:?}, the model's first live function import of that pair is {:?}", module, name, got_f.map(|i| i.index()), want_f.map(|i| i.index())));
            }
            // get_imported_func: the import entry of a function, while that entry is live
            if let Some(fid) = md.import_func[k] {
                let want_i = (0..md.imports.fp.len()).find(|j| md.imports.alive[*j] && md.import_func[*j] == Some(fid)).map(|j| md.imports.ids[j]);
                let got_i = md.m.imports.get_imported_func(fid).map(|i| i.id());
                if want_i != got_i {
                    return fail("finder_agrees_with_model", format!("imports.get_imported_func(function #{}) = {:?}, the model says {:?}", fid.index(), got_i.map(|i| i.index()), want_i.map(|i| i.index())));
                }
            }
            bump(counters, "find_func:imports");
        }
        CollKind::Tables => {
            // "the one function table": Ok(None) without a live funcref table, Ok(Some) with exactly one, Err with more
            let live_func: Vec<usize> = (0..md.tables.ids.len()).filter(|j| md.tables.alive[*j] && md.table_is_func[*j]).collect();
            let got = md.m.tables.main_function_table();
            let ok = match (&got, live_func.len()) {
                (Ok(None), 0) => true,
                (Ok(Some(id)), 1) => *id == md.tables.ids[live_func[0]],
                (Err(_), n) if n >= 2 => true,
                _ => false,
            };
            if !ok {
                return fail("finder_agrees_with_model", format!("tables.main_function_table() = {:?}, the model has {} live funcref table(s)", got.map(|o| o.map(|i| i.index())).map_err(|e| e.to_string()), live_func.len()));
            }
            bump(counters, "find_main_function_table");
        }
        CollKind::Memories => {
            // "the only memory": Err with more than one live memory or none, else that memory
            let live: Vec<usize> = (0..md.memories.ids.len()).filter(|j| md.memories.alive[*j]).collect();
            let got = md.m.get_memory_id();
            let ok = match (&got, live.len()) {
                (Ok(id), 1) => *id == md.memories.ids[live[0]],
                (Err(_), n) if n != 1 => true,
                _ => false,
            };
            if !ok {
                return fail("finder_agrees_with_model", format!("Module::get_memory_id() = {:?}, the model has {} live memories", got.map(|i| i.index()).map_err(|e| e.to_string()), live.len()));
            }
            bump(counters, "find_only_memory");
        }
        CollKind::Customs => {
            if md.customs.fp.is_empty() {
                return Ok(());
            }
            let k = arg as usize % md.customs.fp.len();
            let name = md.customs.fp[k].clone();
            // the by-type finders: "if there are multiple custom sections of the type T ... the first one"
            let first_of = |md: &Mod, raw: bool| (0..md.customs.fp.len()).find(|j| md.customs.alive[*j] && md.custom_raw[*j] == raw);
            let (want_raw, want_typed) = (first_of(md, true), first_of(md, false));
            let got_raw = md.m.customs.get_typed::<RawCustomSection>().map(|s| (s.name.clone(), s.data.clone()));
            let got_raw_mut = md.m.customs.get_typed_mut::<RawCustomSection>().map(|s| (s.name.clone(), s.data.clone()));
            let got_typed = md.m.customs.get_typed::<super::TypedSec>().map(|s| (s.name.clone(), s.payload.clone()));
            let got_typed_mut = md.m.customs.get_typed_mut::<super::TypedSec>().map(|s| (s.name.clone(), s.payload.clone()));
            let model_raw = want_raw.map(|j| (md.customs.fp[j].clone(), md.custom_payload[j].clone()));
            let model_typed = want_typed.map(|j| (md.customs.fp[j].clone(), md.custom_payload[j].clone()));
            if got_raw != model_raw || got_raw_mut != model_raw {
                return fail("finder_agrees_with_model", format!("customs.get_typed::<RawCustomSection>() = {:?} / get_typed_mut = {:?}, the model's first live raw section is {:?}", got_raw, got_raw_mut, model_raw));
            }
            if got_typed != model_typed || got_typed_mut != model_typed {
                return fail("finder_agrees_with_model", format!("customs.get_typed::<TypedSec>() = {:?} / get_typed_mut = {:?}, the model's first live typed section is {:?}", got_typed, got_typed_mut, model_typed));
            }
            bump(counters, "find_typed:customs");
            match arg % 3 {
                0 => {
                    // remove_raw takes the FIRST live RAW section of that name and touches nothing else
                    let first = (0..md.customs.fp.len()).find(|j| md.customs.alive[*j] && md.custom_raw[*j] && md.customs.fp[*j] == name);
                    let got = md.m.customs.remove_raw(&name);
                    if first.is_some() != got.is_some() {
                        return fail("finder_agrees_with_model", format!("customs.remove_raw({:?}) found={} but the model has a live raw section of that name: {}", name, got.is_some(), first.is_some()));
                    }
                    if let Some(j) = first {
                        md.customs.alive[j] = false;
                    }
                }
                1 => {
                    // delete_typed removes the first live section of that type and nothing else
                    let raw = arg % 2 == 0;
                    let want = first_of(md, raw);
                    let got: Option<(String, Vec<u8>)> = if raw {
                        md.m.customs.delete_typed::<RawCustomSection>().map(|s| (s.name.clone(), s.data.clone()))
                    } else {
                        md.m.customs.delete_typed::<super::TypedSec>().map(|s| (s.name.clone(), s.payload.clone()))
                    };
                    let model = want.map(|j| (md.customs.fp[j].clone(), md.custom_payload[j].clone()));
                    if got != model {
                        return fail("finder_agrees_with_model", format!("customs.delete_typed (raw={}) removed {:?}, the model's first live section of that type is {:?}", raw, got, model));
                    }
                    if let Some(j) = want {
                        md.customs.alive[j] = false;
                        bump(counters, "deleted:customs.delete_typed");
                    }
                }
                _ => {}
            }
        }
        _ => {}
    }
    Ok(())
}

/// An id issued by module `a` used on module `b`: refused (panic / None), whatever `b` holds at that index.
fn foreign_op(mods: &mut [Mod], a: usize, b: usize, coll: CollKind, nth: u32, counters: &mut Vec<(String, u64)>) -> R {
    macro_rules! foreign {
        ($track:ident, $what:expr, $get:expr) => {{
            if mods[a].$track.ids.is_empty() {
                return Ok(());
            }
            let id = mods[a].$track.ids[nth as usize % mods[a].$track.ids.len()];
            let m = &mods[b].m;
            match refused(|| ($get)(m, id)) {
                Err(()) => bump(counters, concat!("foreign_id_refused:", $what)),
                Ok(_) => return fail("foreign_id_is_refused", format!("{}.get with an id issued by another module returned normally", $what)),
            }
        }};
    }
    macro_rules! foreign_del {
        ($track:ident, $what:expr, $del:expr) => {{
            if !mods[a].$track.ids.is_empty() {
                let id = mods[a].$track.ids[nth as usize % mods[a].$track.ids.len()];
                let m = &mut mods[b].m;
                match refused(|| ($del)(m, id)) {
                    // refused; that it changed nothing is checked by the invariants right after this step
                    Err(()) => bump(counters, concat!("foreign_id_refused:", $what, ".delete")),
                    Ok(_) => return fail("foreign_id_is_refused", format!("{}.delete with an id issued by another module returned normally", $what)),
                }
            }
        }};
    }
    match coll {
        CollKind::Types => {
            foreign!(types, "types", |m: &Module, id| m.types.get(id).params().len());
            foreign_del!(types, "types", |m: &mut Module, id| m.types.delete(id));
        }
        CollKind::Funcs => {
            foreign!(funcs, "funcs", |m: &Module, id| m.funcs.get(id).name.is_some());
            foreign_del!(funcs, "funcs", |m: &mut Module, id| m.funcs.delete(id));
        }
        CollKind::Globals => {
            foreign!(globals, "globals", |m: &Module, id| m.globals.get(id).mutable);
            foreign_del!(globals, "globals", |m: &mut Module, id| m.globals.delete(id));
        }
        CollKind::Memories => {
            foreign!(memories, "memories", |m: &Module, id| m.memories.get(id).initial);
            foreign_del!(memories, "memories", |m: &mut Module, id| m.memories.delete(id));
        }
        CollKind::Tables => {
            foreign!(tables, "tables", |m: &Module, id| m.tables.get(id).initial);
            foreign_del!(tables, "tables", |m: &mut Module, id| m.tables.delete(id));
        }
        CollKind::Data => {
            foreign!(data, "data", |m: &Module, id| m.data.get(id).value.len());
            foreign_del!(data, "data", |m: &mut Module, id| m.data.delete(id));
        }
        CollKind::Elements => {
            foreign!(elements, "elements", |m: &Module, id| m.elements.get(id).name.is_some());
            foreign_del!(elements, "elements", |m: &mut Module, id| m.elements.delete(id));
        }
        CollKind::Exports => {
            foreign!(exports, "exports", |m: &Module, id| m.exports.get(id).name.len());
            foreign_del!(exports, "exports", |m: &mut Module, id| m.exports.delete(id));
        }
        CollKind::Imports => {
            foreign!(imports, "imports", |m: &Module, id| m.imports.get(id).name.len());
            foreign_del!(imports, "imports", |m: &mut Module, id| m.imports.delete(id));
        }
        CollKind::Locals => foreign!(locals, "locals", |m: &Module, id| m.locals.get(id).name.is_some()),
        CollKind::Customs => {
            if mods[a].customs.ids.is_empty() {
                return Ok(());
            }
            let id = mods[a].customs.ids[nth as usize % mods[a].customs.ids.len()];
            if mods[b].m.customs.get(id).is_some() {
                return fail("foreign_id_is_refused", "customs.get with an id issued by another module returned a section".to_string());
            }
            bump(counters, "foreign_id_refused:customs");
        }
    }
    Ok(())
}

/// Execute a history on up to three modules.  Never unwinds.
pub fn run(ops: &[COp], n_modules: u8, initial_burn: u32) -> CollReport {
    let mut rep = CollReport::default();
    for _ in 0..initial_burn {
        let a = id_arena::Arena::<u8>::new();
        std::hint::black_box(&a);
    }
    let mut mods: Vec<Mod> = (0..n_modules.clamp(1, 3)).map(|_| Mod::new()).collect();
    for (i, op) in ops.iter().enumerate() {
        let nm = mods.len();
        let r: Result<R, ()> = catch_unwind(AssertUnwindSafe(|| -> R {
            match op {
                COp::Add { m, coll, arg } => add_op(&mut mods[*m as usize % nm], *coll, *arg, &mut rep.counters),
                COp::Delete { m, coll, nth } => delete_op(&mut mods[*m as usize % nm], *coll, *nth, &mut rep.counters),
                COp::Get { m, coll, nth } => get_op(&mut mods[*m as usize % nm], *coll, *nth, &mut rep.counters),
                COp::Find { m, coll, arg } => find_op(&mut mods[*m as usize % nm], *coll, *arg, &mut rep.counters),
                COp::Iter { .. } => Ok(()),
                COp::BuilderNew { m, sig } => {
                    let md = &mut mods[*m as usize % nm];
                    let sig = *sig as usize % SIG_POOL.len();
                    let (p, r) = SIG_POOL[sig];
                    let b = FunctionBuilder::new(&mut md.m.types, p, r);
                    let lf = b.local_func(vec![]);
                    let fty = lf.ty();
                    md.note_type(TypeKey { sig, entry: false }, fty, &mut rep.counters)?;
                    md.note_entry_type(sig, &mut rep.counters)
                }
                COp::Foreign { from, to, coll, nth } => {
                    let (a, b) = (*from as usize % nm, *to as usize % nm);
                    if a == b {
                        return Ok(());
                    }
                    foreign_op(&mut mods, a, b, *coll, *nth, &mut rep.counters)
                }
                COp::Burn { n } => {
                    for _ in 0..*n {
                        let a = id_arena::Arena::<u8>::new();
                        std::hint::black_box(&a);
                    }
                    Ok(())
                }
            }
        }))
        .map_err(|_| ());
        let r = match r {
            Ok(r) => r,
            Err(()) => fail("live_id_resolves_to_its_item", format!("operation {:?} on live items panicked", op)),
        };
        // the invariants, after every step, on every module (a refused operation must have changed nothing)
        let r = r.and_then(|()| {
            for (k, md) in mods.iter_mut().enumerate() {
                match catch_unwind(AssertUnwindSafe(|| md.check_all().and_then(|()| md.check_iter_mut()))) {
                    Ok(Ok(())) => {}
                    Ok(Err(mut f)) => {
                        f.detail = format!("module {}: {}", k, f.detail);
                        return Err(f);
                    }
                    Err(_) => return fail("live_id_resolves_to_its_item", format!("module {}: looking up a live id panicked", k)),
                }
            }
            Ok(())
        });
        rep.steps_done = i as u32 + 1;
        let mut h = 0u64;
        for md in &mods {
            h = crate::prng::mix64(h, md.model_hash());
        }
        rep.state_hashes.push(h);
        if let Err(f) = r {
            rep.failure = Some((i as u32, f.oracle.to_string(), f.detail));
            break;
        }
    }
    rep
}
