// Collection histories (C17) and parallel accessors (C09).  Included into scen::coll.
#[allow(unused_imports)]
use super::walrus;
