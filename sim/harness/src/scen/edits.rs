// Well-formed API edits (C02 vocabulary).  Included into scen::edits.
use super::walrus;
use crate::types::*;
use walrus::Module;

#[derive(Default)]
pub struct EditState {
    pub built: Vec<walrus::FunctionId>,
}

pub fn apply(_m: &mut Module, _st: &mut EditState, _e: &Edit) -> (bool, String) {
    (false, "not implemented".to_string())
}
