// Well-formed API edits (the C02 vocabulary).  Included into scen::edits.
//
// Every edit here keeps the documented contract of the API it uses: nothing
// that is still referenced is deleted, every index space stays consistent,
// export names stay unique, bodies are well typed, `ref.func` only names
// functions that are declared (exported) already.  So after any sequence of
// them, emitting must succeed and validate.
use super::walrus;
use crate::prng::Rng;
use crate::types::*;
use walrus::ir::{self, BinaryOp, LoadKind, MemArg, StoreKind, UnaryOp, Value};
use walrus::{ConstExpr, ElementItems, ElementKind, FunctionBuilder, FunctionId, InstrSeqBuilder, LocalId, Module, RefType, ValType};

#[derive(Default)]
pub struct EditState {
    pub built: Vec<FunctionId>,
    pub counter: u32,
    /// signatures of the function types the module had when it was parsed (a later GC may have collected
    /// some of them: building a function with such a signature asks the type set for it AGAIN)
    pub seen_sigs: Vec<(Vec<ValType>, Vec<ValType>)>,
}

impl EditState {
    pub fn for_module(m: &Module) -> EditState {
        let mut seen_sigs: Vec<(Vec<ValType>, Vec<ValType>)> = Vec::new();
        for t in m.types.iter() {
            let s = (t.params().to_vec(), t.results().to_vec());
            if s.0.len() <= 6 && s.1.len() <= 4 && !seen_sigs.contains(&s) {
                seen_sigs.push(s);
            }
        }
        EditState { built: Vec::new(), counter: 0, seen_sigs }
    }
}

const SIGS: &[(&[ValType], &[ValType])] = &[
    (&[], &[]),
    (&[ValType::I32], &[ValType::I32]),
    (&[ValType::I32, ValType::I64], &[ValType::I64]),
    (&[ValType::F32, ValType::F64], &[ValType::F64, ValType::I32]),
    (&[], &[ValType::I32]),
    (&[ValType::I64], &[]),
    (&[ValType::V128, ValType::I32], &[ValType::V128]),
    (&[ValType::Ref(RefType::Externref)], &[ValType::Ref(RefType::Funcref)]),
];

fn nth<T>(mut it: impl Iterator<Item = T>, pick: u32, count: usize) -> Option<T> {
    if count == 0 {
        return None;
    }
    it.nth(pick as usize % count)
}

fn unique_export_name(m: &Module, st: &mut EditState, base: &str) -> String {
    loop {
        st.counter += 1;
        let name = format!("{}_{}", base, st.counter);
        if !m.exports.iter().any(|e| e.name == name) {
            return name;
        }
    }
}

/// Things a generated body may refer to, snapshotted before the builder borrows.
struct World {
    funcs: Vec<(FunctionId, Vec<ValType>, Vec<ValType>)>,
    exported_funcs: Vec<FunctionId>,
    globals: Vec<(walrus::GlobalId, ValType, bool)>,
    mems: Vec<(walrus::MemoryId, bool, bool)>, // (id, memory64, shared)
    tables: Vec<(walrus::TableId, RefType)>,
}

fn world(m: &Module) -> World {
    let funcs = m
        .funcs
        .iter()
        .map(|f| {
            let t = m.types.get(f.ty());
            (f.id(), t.params().to_vec(), t.results().to_vec())
        })
        .collect();
    let exported_funcs = m
        .exports
        .iter()
        .filter_map(|e| match e.item {
            walrus::ExportItem::Function(f) => Some(f),
            _ => None,
        })
        .collect();
    World {
        funcs,
        exported_funcs,
        globals: m.globals.iter().map(|g| (g.id(), g.ty, g.mutable)).collect(),
        mems: m.memories.iter().map(|x| (x.id(), x.memory64, x.shared)).collect(),
        tables: m.tables.iter().map(|t| (t.id(), t.element_ty)).collect(),
    }
}

struct Gen<'w> {
    w: &'w World,
    rng: Rng,
    locals: Vec<(LocalId, ValType)>,
    budget: i32,
    /// functions named by `ref.func` in the body being built: the caller
    /// declares them in an element segment, as the spec requires
    refs: std::rc::Rc<std::cell::RefCell<Vec<FunctionId>>>,
}

fn declare_refs(m: &mut Module, refs: &std::rc::Rc<std::cell::RefCell<Vec<FunctionId>>>) {
    let mut v = refs.borrow().clone();
    v.sort_by_key(|f| f.index());
    v.dedup();
    if !v.is_empty() {
        m.elements.add(ElementKind::Declared, ElementItems::Functions(v));
    }
}

impl<'w> Gen<'w> {
    fn konst(&mut self, s: &mut InstrSeqBuilder, t: ValType) {
        match t {
            ValType::I32 => {
                s.i32_const(self.rng.u32() as i32 >> self.rng.below(32));
            }
            ValType::I64 => {
                s.i64_const(self.rng.u64() as i64 >> self.rng.below(64));
            }
            ValType::F32 => {
                s.f32_const(f32::from_bits(self.rng.u32()));
            }
            ValType::F64 => {
                s.f64_const(f64::from_bits(self.rng.u64()));
            }
            ValType::V128 => {
                s.const_(Value::V128((self.rng.u64() as u128) << 64 | self.rng.u64() as u128));
            }
            ValType::Ref(rt) => {
                if rt == RefType::Funcref && !self.w.exported_funcs.is_empty() && self.rng.bool() {
                    let f = *self.rng.pick(&self.w.exported_funcs);
                    self.refs.borrow_mut().push(f);
                    s.ref_func(f);
                } else {
                    s.ref_null(rt);
                }
            }
        }
    }

    /// push exactly one value of type `t`
    fn value(&mut self, s: &mut InstrSeqBuilder, t: ValType, depth: u32) {
        self.budget -= 1;
        if depth > 3 || self.budget <= 0 {
            return self.leaf(s, t);
        }
        match (self.rng.below(8), t) {
            (0..=1, _) => self.leaf(s, t),
            (2, ValType::I32) => {
                self.value(s, t, depth + 1);
                self.value(s, t, depth + 1);
                s.binop(*self.rng.pick(&[BinaryOp::I32Add, BinaryOp::I32Sub, BinaryOp::I32Mul, BinaryOp::I32And, BinaryOp::I32Xor, BinaryOp::I32LtS]));
            }
            (2, ValType::I64) => {
                self.value(s, t, depth + 1);
                self.value(s, t, depth + 1);
                s.binop(*self.rng.pick(&[BinaryOp::I64Add, BinaryOp::I64Sub, BinaryOp::I64Or, BinaryOp::I64ShrU]));
            }
            (2, ValType::F32) => {
                self.value(s, t, depth + 1);
                self.value(s, t, depth + 1);
                s.binop(*self.rng.pick(&[BinaryOp::F32Add, BinaryOp::F32Mul, BinaryOp::F32Min]));
            }
            (2, ValType::F64) => {
                self.value(s, t, depth + 1);
                self.value(s, t, depth + 1);
                s.binop(*self.rng.pick(&[BinaryOp::F64Sub, BinaryOp::F64Div, BinaryOp::F64Max]));
            }
            (3, ValType::I32) => {
                self.value(s, ValType::I64, depth + 1);
                s.unop(UnaryOp::I32WrapI64);
            }
            (3, ValType::I64) => {
                self.value(s, ValType::I32, depth + 1);
                s.unop(UnaryOp::I64ExtendSI32);
            }
            (3, ValType::F64) => {
                self.value(s, ValType::F32, depth + 1);
                s.unop(UnaryOp::F64PromoteF32);
            }
            (4, _) => {
                // block (result t) { value; [cond; br_if this] }
                let mut g = Gen { w: self.w, rng: self.rng.fork("blk"), locals: self.locals.clone(), budget: self.budget / 2, refs: self.refs.clone() };
                s.block(t, |b| {
                    g.value(b, t, depth + 1);
                    if g.rng.bool() {
                        g.value(b, ValType::I32, depth + 1);
                        let id = b.id();
                        b.br_if(id);
                    }
                });
                self.budget /= 2;
            }
            (5, _) => {
                self.value(s, ValType::I32, depth + 1);
                let mut g1 = Gen { w: self.w, rng: self.rng.fork("then"), locals: self.locals.clone(), budget: self.budget / 2, refs: self.refs.clone() };
                let mut g2 = Gen { w: self.w, rng: self.rng.fork("else"), locals: self.locals.clone(), budget: self.budget / 2, refs: self.refs.clone() };
                s.if_else(t, |a| g1.value(a, t, depth + 1), |b| g2.value(b, t, depth + 1));
                self.budget /= 2;
            }
            (6, _) => {
                // call something that returns exactly [t]
                let cands: Vec<usize> = self.w.funcs.iter().enumerate().filter(|(_, f)| f.2.len() == 1 && f.2[0] == t && f.1.len() <= 3).map(|(i, _)| i).collect();
                if cands.is_empty() {
                    return self.leaf(s, t);
                }
                let f = &self.w.funcs[*self.rng.pick(&cands)];
                for p in f.1.clone() {
                    self.value(s, p, depth + 2);
                }
                s.call(f.0);
            }
            (7, _) => {
                self.value(s, t, depth + 1);
                self.value(s, t, depth + 1);
                self.value(s, ValType::I32, depth + 1);
                let typed = matches!(t, ValType::Ref(_));
                s.select(if typed || self.rng.bool() { Some(t) } else { None });
            }
            _ => self.leaf(s, t),
        }
    }

    fn leaf(&mut self, s: &mut InstrSeqBuilder, t: ValType) {
        let ls: Vec<LocalId> = self.locals.iter().filter(|(_, lt)| *lt == t).map(|(l, _)| *l).collect();
        let gs: Vec<walrus::GlobalId> = self.w.globals.iter().filter(|(_, gt, _)| *gt == t).map(|(g, _, _)| *g).collect();
        match self.rng.below(3) {
            0 if !ls.is_empty() => {
                s.local_get(*self.rng.pick(&ls));
            }
            1 if !gs.is_empty() => {
                s.global_get(*self.rng.pick(&gs));
            }
            _ => self.konst(s, t),
        }
    }

    fn addr(&mut self, s: &mut InstrSeqBuilder, mem64: bool) {
        if mem64 {
            s.i64_const(self.rng.below(64) as i64);
        } else {
            s.i32_const(self.rng.below(64) as i32);
        }
    }

    /// one statement, net stack effect zero
    fn stmt(&mut self, s: &mut InstrSeqBuilder, kind: &BodyKind, depth: u32) {
        self.budget -= 1;
        let r = self.rng.below(10);
        match kind {
            BodyKind::Arith => {
                let t = *self.rng.pick(&[ValType::I32, ValType::I64, ValType::F32, ValType::F64, ValType::V128]);
                self.value(s, t, depth + 1);
                s.drop();
            }
            BodyKind::Control if depth < 3 => match r {
                0..=2 => {
                    let mut g = Gen { w: self.w, rng: self.rng.fork("b"), locals: self.locals.clone(), budget: self.budget / 2, refs: self.refs.clone() };
                    let k = kind.clone();
                    s.block(None, |b| {
                        g.stmt(b, &k, depth + 1);
                        g.value(b, ValType::I32, depth + 1);
                        let id = b.id();
                        b.br_if(id);
                        g.stmt(b, &k, depth + 1);
                    });
                }
                3..=4 => {
                    let mut g = Gen { w: self.w, rng: self.rng.fork("l"), locals: self.locals.clone(), budget: self.budget / 2, refs: self.refs.clone() };
                    let k = kind.clone();
                    s.loop_(None, |b| {
                        g.stmt(b, &k, depth + 1);
                        g.value(b, ValType::I32, depth + 1);
                        let id = b.id();
                        b.br_if(id);
                    });
                }
                5..=6 => {
                    self.value(s, ValType::I32, depth + 1);
                    let mut g1 = Gen { w: self.w, rng: self.rng.fork("t"), locals: self.locals.clone(), budget: self.budget / 2, refs: self.refs.clone() };
                    let mut g2 = Gen { w: self.w, rng: self.rng.fork("e"), locals: self.locals.clone(), budget: self.budget / 2, refs: self.refs.clone() };
                    let (k1, k2) = (kind.clone(), kind.clone());
                    s.if_else(None, |a| g1.stmt(a, &k1, depth + 1), |b| g2.stmt(b, &k2, depth + 1));
                }
                7 => {
                    // br_table over two enclosing blocks
                    let mut g = Gen { w: self.w, rng: self.rng.fork("bt"), locals: self.locals.clone(), budget: self.budget / 2, refs: self.refs.clone() };
                    s.block(None, |outer| {
                        let outer_id = outer.id();
                        outer.block(None, |inner| {
                            let inner_id = inner.id();
                            g.value(inner, ValType::I32, depth + 2);
                            inner.br_table(vec![inner_id, outer_id, inner_id].into_boxed_slice(), outer_id);
                        });
                    });
                }
                8 => {
                    // unconditional branch out of a block, dead code behind it
                    let flavour = self.rng.below(3);
                    s.block(None, |b| {
                        let id = b.id();
                        b.br(id);
                        b.i32_const(1).drop();
                        // dead structured code behind the terminator
                        match flavour {
                            0 => {
                                b.i32_const(0);
                                b.if_else(
                                    None,
                                    |t| {
                                        t.i64_const(1).drop();
                                    },
                                    |e| {
                                        e.f32_const(2.0).drop();
                                    },
                                );
                            }
                            1 => {
                                b.loop_(None, |l| {
                                    l.i32_const(3).drop();
                                });
                            }
                            _ => {}
                        }
                    });
                }
                _ => {
                    self.value(s, ValType::I32, depth + 1);
                    s.drop();
                }
            },
            BodyKind::Calls => {
                if self.w.funcs.is_empty() {
                    s.i32_const(0).drop();
                    return;
                }
                let f = self.w.funcs[self.rng.usize_below(self.w.funcs.len())].clone();
                if f.1.len() > 4 {
                    s.i32_const(0).drop();
                    return;
                }
                for p in &f.1 {
                    self.value(s, *p, depth + 2);
                }
                s.call(f.0);
                for _ in &f.2 {
                    s.drop();
                }
            }
            BodyKind::Entities => match r {
                0..=1 => {
                    let gs: Vec<(walrus::GlobalId, ValType)> = self.w.globals.iter().filter(|g| g.2).map(|g| (g.0, g.1)).collect();
                    if gs.is_empty() {
                        s.i32_const(0).drop();
                    } else {
                        let (g, t) = *self.rng.pick(&gs);
                        self.value(s, t, depth + 1);
                        s.global_set(g);
                    }
                }
                2..=4 if !self.w.mems.is_empty() => {
                    let (mem, m64, _) = *self.rng.pick(&self.w.mems);
                    self.addr(s, m64);
                    match self.rng.below(3) {
                        0 => {
                            s.load(mem, LoadKind::I32 { atomic: false }, MemArg { align: 4, offset: self.rng.below(100) as u32 });
                            s.drop();
                        }
                        1 => {
                            s.load(mem, LoadKind::I64_8 { kind: ir::ExtendedLoad::ZeroExtend }, MemArg { align: 1, offset: 0 });
                            s.drop();
                        }
                        _ => {
                            self.value(s, ValType::F64, depth + 1);
                            s.store(mem, StoreKind::F64, MemArg { align: 8, offset: self.rng.below(100) as u32 });
                        }
                    }
                }
                5 if !self.w.mems.is_empty() => {
                    let (mem, _, _) = *self.rng.pick(&self.w.mems);
                    s.memory_size(mem);
                    s.drop();
                }
                6..=7 if !self.w.tables.is_empty() => {
                    let (t, rt) = *self.rng.pick(&self.w.tables);
                    match self.rng.below(3) {
                        0 => {
                            s.table_size(t);
                            s.drop();
                        }
                        1 => {
                            s.i32_const(0);
                            s.table_get(t);
                            s.drop();
                        }
                        _ => {
                            s.i32_const(0);
                            self.konst(s, ValType::Ref(rt));
                            s.table_set(t);
                        }
                    }
                }
                _ => {
                    let t = *self.rng.pick(&[ValType::I32, ValType::Ref(RefType::Externref), ValType::Ref(RefType::Funcref)]);
                    self.value(s, t, depth + 1);
                    s.drop();
                }
            },
            _ => {
                self.value(s, ValType::I32, depth + 1);
                s.drop();
            }
        }
    }

    fn body(&mut self, s: &mut InstrSeqBuilder, kind: &BodyKind, results: &[ValType]) {
        let n = self.rng.range(0, 4);
        for _ in 0..n {
            self.stmt(s, kind, 0);
        }
        for r in results {
            self.budget = self.budget.max(4);
            self.value(s, *r, 1);
        }
    }
}

/// Build a function body through positional insertion and dangling sequences:
/// the result must be the same well-typed body as if it had been appended.
fn positional_body(
    builder: &mut FunctionBuilder,
    rng: &mut Rng,
    results: &[ValType],
    w: &World,
    locals: &[(LocalId, ValType)],
    refs: &std::rc::Rc<std::cell::RefCell<Vec<FunctionId>>>,
) {
    // results first (appended), then statements spliced in FRONT of them by position
    let mut g = Gen { w, rng: rng.fork("pos"), locals: locals.to_vec(), budget: 12, refs: refs.clone() };
    {
        let mut body = builder.func_body();
        for r in results {
            g.value(&mut body, *r, 2);
        }
    }
    // a dangling sequence built first and attached later
    let dangling = {
        let mut d = builder.dangling_instr_seq(None);
        d.i32_const(rng.u32() as i32).drop();
        d.id()
    };
    let mut body = builder.func_body();
    body.instr_at(0, ir::Block { seq: dangling });
    // splice neutral things at positions 0 and 1
    body.instr_at(0, ir::Drop {});
    body.instr_at(0, ir::Const { value: Value::I64(rng.u64() as i64) });
    body.block_at(1.min(body.instrs().len()), None, |b| {
        b.i32_const(7).drop();
    });
    // an if/else spliced at the front: needs its condition in front of it
    body.if_else_at(
        0,
        None,
        |t| {
            t.f32_const(1.5).drop();
        },
        |e| {
            e.f64_const(2.5).drop();
        },
    );
    body.instr_at(0, ir::Const { value: Value::I32(rng.below(2) as i32) });
    body.loop_at(0, None, |l| {
        l.i32_const(0).drop();
    });
}

fn build_function(m: &mut Module, st: &EditState, seed: u64, sig: u32, kind: &BodyKind) -> FunctionId {
    // half of the signatures come from the fixed pool, half from the types the parsed module had
    let from_module = sig & 1 == 1 && !st.seen_sigs.is_empty();
    let (pv, rv);
    let (params, results): (&[ValType], &[ValType]) = if from_module {
        let s = &st.seen_sigs[(sig >> 1) as usize % st.seen_sigs.len()];
        pv = s.0.clone();
        rv = s.1.clone();
        (&pv, &rv)
    } else {
        SIGS[(sig >> 1) as usize % SIGS.len()]
    };
    let w = world(m);
    let mut rng = Rng::new(seed);
    // the argument locals are not always allocated in parameter order (nothing in the API asks for that)
    let args: Vec<LocalId> = if rng.bool() {
        params.iter().map(|t| m.locals.add(*t)).collect()
    } else {
        let mut rev: Vec<LocalId> = params.iter().rev().map(|t| m.locals.add(*t)).collect();
        rev.reverse();
        rev
    };
    let mut locals: Vec<(LocalId, ValType)> = args.iter().cloned().zip(params.iter().cloned()).collect();
    for _ in 0..rng.below(3) {
        let t = *rng.pick(&[ValType::I32, ValType::I64, ValType::F64]);
        locals.push((m.locals.add(t), t));
    }
    let mut builder = FunctionBuilder::new(&mut m.types, params, results);
    if rng.bool() {
        builder.name(format!("built_{:x}", seed & 0xffff));
    }
    let refs = std::rc::Rc::new(std::cell::RefCell::new(Vec::new()));
    match kind {
        BodyKind::Positional => positional_body(&mut builder, &mut rng, results, &w, &locals, &refs),
        _ => {
            let mut g = Gen { w: &w, rng: rng.fork("body"), locals: locals.clone(), budget: 30, refs: refs.clone() };
            let mut body = builder.func_body();
            // sometimes write to a fresh local first so that it is "used"
            if let Some((l, t)) = locals.last().cloned() {
                g.value(&mut body, t, 2);
                body.local_set(l);
            }
            g.body(&mut body, kind, results);
        }
    }
    let f = builder.finish(args, &mut m.funcs);
    declare_refs(m, &refs);
    f
}

struct SeqCollector {
    seqs: Vec<(ir::InstrSeqId, usize)>,
}

impl<'i> ir::Visitor<'i> for SeqCollector {
    fn start_instr_seq(&mut self, seq: &'i ir::InstrSeq) {
        self.seqs.push((seq.id(), seq.len()));
    }
}

pub fn apply(m: &mut Module, st: &mut EditState, e: &Edit) -> (bool, String) {
    match e {
        Edit::ExportFunc { pick, name } => {
            let n = m.funcs.iter().count();
            let Some(id) = nth(m.funcs.iter().map(|f| f.id()), *pick, n) else { return (false, "no function".into()) };
            let name = unique_export_name(m, st, name);
            m.exports.add(&name, id);
            (true, String::new())
        }
        Edit::ExportGlobal { pick, name } => {
            let n = m.globals.iter().count();
            let Some(id) = nth(m.globals.iter().map(|f| f.id()), *pick, n) else { return (false, "no global".into()) };
            let name = unique_export_name(m, st, name);
            m.exports.add(&name, id);
            (true, String::new())
        }
        Edit::ExportMemory { pick, name } => {
            let n = m.memories.iter().count();
            let Some(id) = nth(m.memories.iter().map(|f| f.id()), *pick, n) else { return (false, "no memory".into()) };
            let name = unique_export_name(m, st, name);
            m.exports.add(&name, id);
            (true, String::new())
        }
        Edit::ExportTable { pick, name } => {
            let n = m.tables.iter().count();
            let Some(id) = nth(m.tables.iter().map(|f| f.id()), *pick, n) else { return (false, "no table".into()) };
            let name = unique_export_name(m, st, name);
            m.exports.add(&name, id);
            (true, String::new())
        }
        Edit::DeleteExport { pick } => {
            let n = m.exports.iter().count();
            let Some(id) = nth(m.exports.iter().map(|f| f.id()), *pick, n) else { return (false, "no export".into()) };
            m.exports.delete(id);
            (true, String::new())
        }
        Edit::BuildFunc { seed, sig, kind, export, in_elem, in_global } => {
            let f = build_function(m, st, *seed, *sig, kind);
            st.built.push(f);
            if *export {
                let name = unique_export_name(m, st, "built");
                m.exports.add(&name, f);
            }
            if *in_elem {
                let funcref_tables: Vec<walrus::TableId> = m.tables.iter().filter(|t| t.element_ty == RefType::Funcref && !t.table64).map(|t| t.id()).collect();
                let kind = match (seed % 3, funcref_tables.first()) {
                    (0, Some(t)) => ElementKind::Active { table: *t, offset: ConstExpr::Value(Value::I32(0)) },
                    (1, _) => ElementKind::Passive,
                    _ => ElementKind::Declared,
                };
                let id = m.elements.add(kind, ElementItems::Functions(vec![f]));
                if let ElementKind::Active { table, .. } = kind {
                    // keep the parse-time back-link consistent, as a careful user of the API would
                    m.tables.get_mut(table).elem_segments.insert(id);
                }
            }
            if *in_global {
                let g = m.globals.add_local(ValType::Ref(RefType::Funcref), false, false, ConstExpr::RefFunc(f));
                // the global is sometimes the ONLY thing that keeps the function alive: keep the global alive
                if seed % 2 == 0 {
                    let name = unique_export_name(m, st, "gf");
                    m.exports.add(&name, g);
                }
            }
            (true, String::new())
        }
        Edit::AddGlobal { ty, mutable, export } => {
            let (t, init) = match ty % 6 {
                0 => (ValType::I32, ConstExpr::Value(Value::I32(-5))),
                1 => (ValType::I64, ConstExpr::Value(Value::I64(1 << 40))),
                2 => (ValType::F32, ConstExpr::Value(Value::F32(f32::from_bits(0x7fc0_0001)))),
                3 => (ValType::F64, ConstExpr::Value(Value::F64(-0.0))),
                4 => (ValType::V128, ConstExpr::Value(Value::V128(0x0102_0304_0506_0708_090a_0b0c_0d0e_0f10))),
                _ => (ValType::Ref(RefType::Externref), ConstExpr::RefNull(RefType::Externref)),
            };
            let g = m.globals.add_local(t, *mutable, false, init);
            if *export {
                let name = unique_export_name(m, st, "g");
                m.exports.add(&name, g);
            }
            (true, String::new())
        }
        Edit::AddMemory { shared, mem64, export } => {
            let id = m.memories.add_local(*shared, *mem64, 1, if *shared { Some(4) } else { None }, None);
            if *export {
                let name = unique_export_name(m, st, "mem");
                m.exports.add(&name, id);
            }
            (true, String::new())
        }
        Edit::AddTable { externref, export } => {
            let id = m.tables.add_local(false, 2, Some(10), if *externref { RefType::Externref } else { RefType::Funcref });
            if *export {
                let name = unique_export_name(m, st, "tab");
                m.exports.add(&name, id);
            }
            (true, String::new())
        }
        Edit::AddData { passive, len, use_in_func } => {
            let bytes: Vec<u8> = (0..*len).map(|i| i as u8).collect();
            let mem = m.memories.iter().next().map(|x| (x.id(), x.memory64));
            let id = match (passive, mem) {
                (false, Some((mid, m64))) => {
                    let off = if m64 { ConstExpr::Value(Value::I64(8)) } else { ConstExpr::Value(Value::I32(8)) };
                    let id = m.data.add(walrus::DataKind::Active { memory: mid, offset: off }, bytes);
                    m.memories.get_mut(mid).data_segments.insert(id);
                    id
                }
                _ => m.data.add(walrus::DataKind::Passive, bytes),
            };
            if *use_in_func {
                let mut b = FunctionBuilder::new(&mut m.types, &[], &[]);
                {
                    let mut body = b.func_body();
                    if let Some((mid, m64)) = mem {
                        if m64 {
                            body.i64_const(0);
                        } else {
                            body.i32_const(0);
                        }
                        body.i32_const(0).i32_const(0).memory_init(mid, id);
                    }
                    body.data_drop(id);
                }
                let f = b.finish(vec![], &mut m.funcs);
                let name = unique_export_name(m, st, "datauser");
                m.exports.add(&name, f);
            }
            (true, String::new())
        }
        Edit::AddElem { kind, n } => {
            let nf = m.funcs.iter().count();
            let funcs: Vec<FunctionId> = (0..*n).filter_map(|k| nth(m.funcs.iter().map(|f| f.id()), k * 7 + *kind as u32, nf)).collect();
            let funcref_table = m.tables.iter().find(|t| t.element_ty == RefType::Funcref && !t.table64).map(|t| t.id());
            let extern_table = m.tables.iter().find(|t| t.element_ty == RefType::Externref && !t.table64).map(|t| t.id());
            // (kinds 5 and 6, round 16: expression-form funcref segments whose items are ALL ref.func -- the one shape an
            // index-form segment could also express, so parse and emit must agree on which form it is)
            let all_ref_func = || ElementItems::Expressions(RefType::Funcref, funcs.iter().map(|f| ConstExpr::RefFunc(*f)).collect());
            let (k, items) = match (kind % 7, funcref_table, extern_table) {
                (5, _, _) => (ElementKind::Passive, all_ref_func()),
                (6, Some(t), _) => (ElementKind::Active { table: t, offset: ConstExpr::Value(Value::I32(2)) }, all_ref_func()),
                (6, None, _) => (ElementKind::Declared, all_ref_func()),
                (0, _, _) => (ElementKind::Passive, ElementItems::Functions(funcs)),
                (1, _, _) => (ElementKind::Declared, ElementItems::Functions(funcs)),
                (2, Some(t), _) => (ElementKind::Active { table: t, offset: ConstExpr::Value(Value::I32(1)) }, ElementItems::Functions(funcs)),
                (3, _, _) => (ElementKind::Passive, ElementItems::Expressions(RefType::Externref, vec![ConstExpr::RefNull(RefType::Externref); *n as usize % 4])),
                (4, _, Some(t)) => (
                    ElementKind::Active { table: t, offset: ConstExpr::Value(Value::I32(0)) },
                    ElementItems::Expressions(RefType::Externref, vec![ConstExpr::RefNull(RefType::Externref); 1 + *n as usize % 3]),
                ),
                (2, None, _) => (
                    ElementKind::Passive,
                    ElementItems::Expressions(RefType::Funcref, funcs.iter().map(|f| ConstExpr::RefFunc(*f)).chain(std::iter::once(ConstExpr::RefNull(RefType::Funcref))).collect()),
                ),
                _ => (ElementKind::Declared, ElementItems::Functions(funcs)),
            };
            let id = m.elements.add(k, items);
            if let ElementKind::Active { table, .. } = k {
                m.tables.get_mut(table).elem_segments.insert(id);
            }
            (true, String::new())
        }
        Edit::ReplaceImported { pick, seed, kind } => {
            let imported: Vec<FunctionId> = m.funcs.iter().filter(|f| matches!(f.kind, walrus::FunctionKind::Import(_))).map(|f| f.id()).collect();
            if imported.is_empty() {
                return (false, "no imported function".into());
            }
            let fid = imported[*pick as usize % imported.len()];
            let w = world(m);
            let t = m.types.get(m.funcs.get(fid).ty());
            let (params, results) = (t.params().to_vec(), t.results().to_vec());
            let mut rng = Rng::new(*seed);
            let kind = kind.clone();
            let refs = std::rc::Rc::new(std::cell::RefCell::new(Vec::new()));
            let refs2 = refs.clone();
            let r = m.replace_imported_func(fid, |(body, args)| {
                let locals: Vec<(LocalId, ValType)> = args.iter().cloned().zip(params.iter().cloned()).collect();
                let mut g = Gen { w: &w, rng: rng.fork("ri"), locals, budget: 20, refs: refs2.clone() };
                let k = if matches!(kind, BodyKind::Positional) { BodyKind::Arith } else { kind };
                g.body(body, &k, &results);
            });
            declare_refs(m, &refs);
            (r.is_ok(), r.err().map(|e| e.to_string()).unwrap_or_default())
        }
        Edit::ReplaceExported { pick, seed, kind } => {
            let exported: Vec<FunctionId> = m
                .exports
                .iter()
                .filter_map(|e| match e.item {
                    walrus::ExportItem::Function(f) => Some(f),
                    _ => None,
                })
                .collect();
            if exported.is_empty() {
                return (false, "no exported function".into());
            }
            let fid = exported[*pick as usize % exported.len()];
            let w = world(m);
            let t = m.types.get(m.funcs.get(fid).ty());
            let (params, results) = (t.params().to_vec(), t.results().to_vec());
            let mut rng = Rng::new(*seed);
            let kind = kind.clone();
            let refs = std::rc::Rc::new(std::cell::RefCell::new(Vec::new()));
            let refs2 = refs.clone();
            let r = m.replace_exported_func(fid, |(body, args)| {
                let locals: Vec<(LocalId, ValType)> = args.iter().cloned().zip(params.iter().cloned()).collect();
                let mut g = Gen { w: &w, rng: rng.fork("re"), locals, budget: 20, refs: refs2.clone() };
                let k = if matches!(kind, BodyKind::Positional) { BodyKind::Arith } else { kind };
                g.body(body, &k, &results);
            });
            declare_refs(m, &refs);
            (r.is_ok(), r.err().map(|e| e.to_string()).unwrap_or_default())
        }
        Edit::SetStart { seed } => {
            let f = build_function(m, st, *seed, 0, &BodyKind::Arith);
            st.built.push(f);
            m.start = Some(f);
            (true, String::new())
        }
        Edit::ClearStart => {
            m.start = None;
            (true, String::new())
        }
        Edit::InsertNeutral { func, seq, pos, what } => {
            let locals: Vec<FunctionId> = m.funcs.iter_local().map(|(id, _)| id).collect();
            if locals.is_empty() {
                return (false, "no local function".into());
            }
            let fid = locals[*func as usize % locals.len()];
            let lf = m.funcs.get(fid).kind.unwrap_local();
            let mut c = SeqCollector { seqs: vec![] };
            ir::dfs_in_order(&mut c, lf, lf.entry_block());
            if c.seqs.is_empty() {
                return (false, "no sequence".into());
            }
            let (sid, len) = c.seqs[*seq as usize % c.seqs.len()];
            let at = *pos as usize % (len + 1);
            let b = m.funcs.get_mut(fid).kind.unwrap_local_mut().builder_mut();
            let mut s = b.instr_seq(sid);
            match what % 4 {
                0 => {
                    s.instr_at(at, ir::Drop {});
                    s.instr_at(at, ir::RefNull { ty: RefType::Externref });
                }
                1 => {
                    s.instr_at(at, ir::Drop {});
                    s.instr_at(at, ir::Const { value: Value::I32(42) });
                }
                2 => {
                    s.block_at(at, None, |b| {
                        b.i64_const(1).drop();
                    });
                }
                _ => {
                    s.instr_at(at, ir::Drop {});
                    s.instr_at(at, ir::Binop { op: BinaryOp::F64Add });
                    s.instr_at(at, ir::Const { value: Value::F64(2.0) });
                    s.instr_at(at, ir::Const { value: Value::F64(1.0) });
                }
            }
            (true, String::new())
        }
        Edit::InsertTerminator { func, seq, pos, what } => {
            let locals: Vec<FunctionId> = m.funcs.iter_local().map(|(id, _)| id).collect();
            if locals.is_empty() {
                return (false, "no local function".into());
            }
            let fid = locals[*func as usize % locals.len()];
            let no_results = m.types.get(m.funcs.get(fid).ty()).results().is_empty();
            let lf = m.funcs.get(fid).kind.unwrap_local();
            let mut c = SeqCollector { seqs: vec![] };
            ir::dfs_in_order(&mut c, lf, lf.entry_block());
            if c.seqs.is_empty() {
                return (false, "no sequence".into());
            }
            let (sid, len) = c.seqs[*seq as usize % c.seqs.len()];
            let at = *pos as usize % (len + 1);
            let b = m.funcs.get_mut(fid).kind.unwrap_local_mut().builder_mut();
            let mut s = b.instr_seq(sid);
            if no_results && what % 2 == 1 {
                s.instr_at(at, ir::Return {});
            } else {
                s.instr_at(at, ir::Unreachable {});
            }
            (true, String::new())
        }
        Edit::InsertViaBlockMut { func, seq, pos, n } => {
            let locals: Vec<FunctionId> = m.funcs.iter_local().map(|(id, _)| id).collect();
            if locals.is_empty() {
                return (false, "no local function".into());
            }
            let fid = locals[*func as usize % locals.len()];
            let lf = m.funcs.get(fid).kind.unwrap_local();
            let mut c = SeqCollector { seqs: vec![] };
            ir::dfs_in_order(&mut c, lf, lf.entry_block());
            if c.seqs.is_empty() {
                return (false, "no sequence".into());
            }
            let (sid, len) = c.seqs[*seq as usize % c.seqs.len()];
            let at = *pos as usize % (len + 1);
            let block = m.funcs.get_mut(fid).kind.unwrap_local_mut().block_mut(sid);
            for k in 0..(*n).clamp(1, 12) {
                block.instrs.insert(at, (ir::Instr::Drop(ir::Drop {}), Default::default()));
                block.instrs.insert(at, (ir::Instr::Const(ir::Const { value: Value::I32(k as i32) }), Default::default()));
            }
            (true, String::new())
        }
        Edit::VisitMutPass { func, what } => {
            let locals: Vec<FunctionId> = m.funcs.iter_local().map(|(id, _)| id).collect();
            if locals.is_empty() {
                return (false, "no local function".into());
            }
            let fid = locals[*func as usize % locals.len()];
            struct Pass {
                what: u8,
            }
            impl ir::VisitorMut for Pass {
                fn start_instr_seq_mut(&mut self, seq: &mut ir::InstrSeq) {
                    if self.what == 0 {
                        seq.instrs.push((ir::Instr::Const(ir::Const { value: Value::I32(0) }), Default::default()));
                        seq.instrs.push((ir::Instr::Drop(ir::Drop {}), Default::default()));
                    }
                }
                fn visit_const_mut(&mut self, c: &mut ir::Const) {
                    if self.what != 0 {
                        if let Value::I32(v) = c.value {
                            c.value = Value::I32(v ^ 1);
                        }
                    }
                }
            }
            let lf = m.funcs.get_mut(fid).kind.unwrap_local_mut();
            let entry = lf.entry_block();
            ir::dfs_pre_order_mut(&mut Pass { what: *what % 2 }, lf, entry);
            (true, String::new())
        }
        Edit::AddImportLate { kind, export, flavour } => {
            // a name no export of the module carries yet (the edit state restarts on a re-parse)
            let name = loop {
                st.counter += 1;
                let n = format!("late{}", st.counter);
                let x = format!("x{}", n);
                if !m.exports.iter().any(|e| e.name == x) {
                    break n;
                }
            };
            match kind % 4 {
                0 => {
                    let ty = m.types.add(&[ValType::I32], &[]);
                    let (f, _) = m.add_import_func("late", &name, ty);
                    if *export {
                        m.exports.add(&format!("x{}", name), f);
                    }
                }
                1 => {
                    let (g, _) = m.add_import_global("late", &name, if flavour % 2 == 0 { ValType::I32 } else { ValType::F64 }, false, false);
                    if *export {
                        m.exports.add(&format!("x{}", name), g);
                    }
                }
                2 => {
                    // (several memories need the multi-memory proposal, which walrus's default feature set has)
                    let (mem, _) = m.add_import_memory("late", &name, false, false, 1, None, None);
                    if *export {
                        m.exports.add(&format!("x{}", name), mem);
                    }
                }
                _ => {
                    let (t, _) = m.add_import_table("late", &name, false, 1, None, if flavour % 2 == 0 { RefType::Funcref } else { RefType::Externref });
                    if *export {
                        m.exports.add(&format!("x{}", name), t);
                    }
                }
            }
            (true, String::new())
        }
        Edit::AddRootSection { pick } => {
            let n = m.funcs.iter().count();
            let Some(id) = nth(m.funcs.iter().map(|f| f.id()), *pick, n) else { return (false, "no function".into()) };
            st.counter += 1;
            m.customs.add(super::RootSec { name: format!("dst.root.{}", st.counter), func: id });
            (true, String::new())
        }
        Edit::RenameFunc { pick, name } => {
            let n = m.funcs.iter().count();
            let Some(id) = nth(m.funcs.iter().map(|f| f.id()), *pick, n) else { return (false, "no function".into()) };
            m.funcs.get_mut(id).name = name.clone();
            (true, String::new())
        }
        Edit::RenameModule { name } => {
            m.name = name.clone();
            (true, String::new())
        }
        Edit::RenameLocal { pick, name } => {
            let n = m.locals.iter().count();
            let Some(id) = nth(m.locals.iter().map(|f| f.id()), *pick, n) else { return (false, "no local".into()) };
            m.locals.get_mut(id).name = name.clone();
            (true, String::new())
        }
        Edit::RenameOther { which, pick, name } => {
            match which % 6 {
                0 => {
                    let n = m.tables.iter().count();
                    let Some(id) = nth(m.tables.iter().map(|f| f.id()), *pick, n) else { return (false, "none".into()) };
                    m.tables.get_mut(id).name = name.clone();
                }
                1 => {
                    let n = m.memories.iter().count();
                    let Some(id) = nth(m.memories.iter().map(|f| f.id()), *pick, n) else { return (false, "none".into()) };
                    m.memories.get_mut(id).name = name.clone();
                }
                2 => {
                    let n = m.globals.iter().count();
                    let Some(id) = nth(m.globals.iter().map(|f| f.id()), *pick, n) else { return (false, "none".into()) };
                    m.globals.get_mut(id).name = name.clone();
                }
                3 => {
                    let n = m.data.iter().count();
                    let Some(id) = nth(m.data.iter().map(|f| f.id()), *pick, n) else { return (false, "none".into()) };
                    m.data.get_mut(id).name = name.clone();
                }
                4 => {
                    let n = m.elements.iter().count();
                    let Some(id) = nth(m.elements.iter().map(|f| f.id()), *pick, n) else { return (false, "none".into()) };
                    m.elements.get_mut(id).name = name.clone();
                }
                _ => {
                    let n = m.types.iter().count();
                    let Some(id) = nth(m.types.iter().map(|f| f.id()), *pick, n) else { return (false, "none".into()) };
                    m.types.get_mut(id).name = name.clone();
                }
            }
            (true, String::new())
        }
        Edit::Producers { field, name, version } => {
            match field % 3 {
                0 => m.producers.add_language(name, version),
                1 => m.producers.add_processed_by(name, version),
                _ => m.producers.add_sdk(name, version),
            }
            (true, String::new())
        }
    }
}
