// Scenario code, written once against the name `walrus` and instantiated twice
// (see main.rs): `ser` = /repo built with default features (the reference),
// `par` = /repo built with feature "parallel".  Everything here goes through
// walrus's PUBLIC API only.

use crate::simrt;
use crate::types::*;
use std::borrow::Cow;
use std::panic::{catch_unwind, AssertUnwindSafe};
use std::sync::atomic::{AtomicU32, Ordering};
use std::sync::{Arc, Mutex};
use walrus::ir::Visitor;
use walrus::{CustomSection, IdsToIndices, Module, ModuleConfig, RawCustomSection};

pub mod edits {
    include!("edits.rs");
}
pub mod coll {
    include!("coll.rs");
}

// ---------------------------------------------------------------------------
// custom section types owned by the harness

/// A user-defined (non-raw) custom section with constant payload.
#[derive(Debug, Clone)]
pub struct TypedSec {
    pub name: String,
    pub payload: Vec<u8>,
}

impl CustomSection for TypedSec {
    fn name(&self) -> &str {
        &self.name
    }
    fn data(&self, _: &IdsToIndices) -> Cow<[u8]> {
        Cow::Borrowed(&self.payload)
    }
}

/// A user-defined section that keeps one function alive through `add_gc_roots` and records that function's
/// emitted index in its payload (what a tool's own metadata section does).  If the GC honours the root, the
/// function and everything it needs survive and `data()` finds its index.
#[derive(Debug, Clone)]
pub struct RootSec {
    pub name: String,
    pub func: walrus::FunctionId,
}

impl CustomSection for RootSec {
    fn name(&self) -> &str {
        &self.name
    }
    fn data(&self, ix: &IdsToIndices) -> Cow<[u8]> {
        // (u32::MAX when the function was deleted by a later edit of the history: absent, not a panic)
        let f = self.func;
        Cow::Owned(idx_or_absent(|| ix.get_func_index(f)).to_le_bytes().to_vec())
    }
    fn add_gc_roots(&self, roots: &mut walrus::passes::Roots) {
        roots.push_func(self.func);
    }
}

pub const PROBE_NAME: &str = "dst.probe";

#[derive(Debug, Default, Clone)]
pub struct ProbeIds {
    pub funcs: Vec<walrus::FunctionId>,
    pub types: Vec<walrus::TypeId>,
    pub tables: Vec<walrus::TableId>,
    pub memories: Vec<walrus::MemoryId>,
    pub globals: Vec<walrus::GlobalId>,
    pub elements: Vec<walrus::ElementId>,
    pub data: Vec<walrus::DataId>,
}

/// What extension code sees during emit: the code-offset map handed to
/// `apply_code_transform` and the id->index map handed to `data`.  Serialised
/// into the section payload, so "byte-identical output" covers both.
#[derive(Debug, Default)]
pub struct Probe {
    pub ids: ProbeIds,
    pub captured: Mutex<Vec<u8>>,
}

fn idx_or_absent(f: impl FnOnce() -> u32) -> u32 {
    // `IdsToIndices::get_*_index` panics for an id that was not emitted (e.g.
    // deleted by GC); that is its documented way of saying "absent".
    match catch_unwind(AssertUnwindSafe(f)) {
        Ok(v) => v,
        Err(_) => u32::MAX,
    }
}

impl CustomSection for Probe {
    fn name(&self) -> &str {
        PROBE_NAME
    }

    fn data(&self, ix: &IdsToIndices) -> Cow<[u8]> {
        let mut out = Vec::new();
        out.extend_from_slice(b"PRB1");
        out.extend_from_slice(&self.captured.lock().unwrap());
        let mut put = |v: Vec<u32>| {
            out.extend_from_slice(&(v.len() as u32).to_le_bytes());
            for x in v {
                out.extend_from_slice(&x.to_le_bytes());
            }
        };
        put(self.ids.funcs.iter().map(|&i| idx_or_absent(|| ix.get_func_index(i))).collect());
        put(self.ids.types.iter().map(|&i| idx_or_absent(|| ix.get_type_index(i))).collect());
        put(self.ids.tables.iter().map(|&i| idx_or_absent(|| ix.get_table_index(i))).collect());
        put(self.ids.memories.iter().map(|&i| idx_or_absent(|| ix.get_memory_index(i))).collect());
        put(self.ids.globals.iter().map(|&i| idx_or_absent(|| ix.get_global_index(i))).collect());
        put(self.ids.elements.iter().map(|&i| idx_or_absent(|| ix.get_element_index(i))).collect());
        put(self.ids.data.iter().map(|&i| idx_or_absent(|| ix.get_data_index(i))).collect());
        Cow::Owned(out)
    }

    fn apply_code_transform(&mut self, t: &walrus::CodeTransform) {
        let mut c = Vec::new();
        c.extend_from_slice(&(t.code_section_start as u64).to_le_bytes());
        c.extend_from_slice(&(t.instruction_map.len() as u32).to_le_bytes());
        for (loc, off) in &t.instruction_map {
            c.extend_from_slice(&loc.data().to_le_bytes());
            c.extend_from_slice(&(*off as u64).to_le_bytes());
        }
        c.extend_from_slice(&(t.function_ranges.len() as u32).to_le_bytes());
        for (id, r) in &t.function_ranges {
            c.extend_from_slice(&(id.index() as u32).to_le_bytes());
            c.extend_from_slice(&(r.start as u64).to_le_bytes());
            c.extend_from_slice(&(r.end as u64).to_le_bytes());
        }
        *self.captured.lock().unwrap() = c;
    }
}

// ---------------------------------------------------------------------------
// configuration

#[derive(Clone, Default)]
pub struct Hooks {
    pub on_parse_calls: Arc<AtomicU32>,
}

pub fn make_config(cfg: &CfgBits, hooks: &Hooks) -> ModuleConfig {
    let mut c = ModuleConfig::new();
    c.generate_name_section(cfg.names);
    c.generate_producers_section(cfg.producers);
    c.generate_synthetic_names_for_anonymous_items(cfg.synthetic);
    c.only_stable_features(cfg.only_stable);
    c.strict_validate(cfg.strict);
    c.preserve_code_transform(cfg.code_transform);
    // generate_dwarf(true) implies preserve_code_transform; set it last like a user would ...
    c.generate_dwarf(cfg.dwarf);
    if cfg.late_code_transform {
        // ... or not: a later preserve_code_transform(false) wins over the implication
        c.preserve_code_transform(cfg.code_transform);
    }
    if cfg.on_parse || cfg.probe {
        let calls = hooks.on_parse_calls.clone();
        let probe = cfg.probe;
        c.on_parse(move |m, ix| {
            calls.fetch_add(1, Ordering::SeqCst);
            if probe {
                let mut ids = ProbeIds::default();
                let mut i = 0;
                while let Ok(x) = ix.get_func(i) {
                    ids.funcs.push(x);
                    i += 1;
                }
                i = 0;
                while let Ok(x) = ix.get_type(i) {
                    ids.types.push(x);
                    i += 1;
                }
                i = 0;
                while let Ok(x) = ix.get_table(i) {
                    ids.tables.push(x);
                    i += 1;
                }
                i = 0;
                while let Ok(x) = ix.get_memory(i) {
                    ids.memories.push(x);
                    i += 1;
                }
                i = 0;
                while let Ok(x) = ix.get_global(i) {
                    ids.globals.push(x);
                    i += 1;
                }
                i = 0;
                while let Ok(x) = ix.get_element(i) {
                    ids.elements.push(x);
                    i += 1;
                }
                i = 0;
                while let Ok(x) = ix.get_data(i) {
                    ids.data.push(x);
                    i += 1;
                }
                m.customs.add(Probe { ids, captured: Mutex::new(Vec::new()) });
            }
            Ok(())
        });
    }
    if cfg.on_instr_loc {
        c.on_instr_loc(move |pos| {
            // pure function of the position; also a scheduling point of the simulator
            simrt::sched_point(simrt::Site::InstrLoc);
            walrus::InstrLocId::new((*pos as u32) ^ 0x0100_0000)
        });
    }
    c
}

// ---------------------------------------------------------------------------
// the lifecycle interpreter

pub struct Ctx<'a> {
    /// other corpus modules, for `Op::Unrelated`
    pub unrelated: &'a [Vec<u8>],
    pub scratch: &'a std::path::Path,
    /// unique per run, for file names
    pub run_tag: u64,
}

struct State {
    module: Module,
    cfg: CfgBits,
    custom_ids: Vec<walrus::UntypedCustomSectionId>,
    edit_state: edits::EditState,
}

fn panic_msg(p: Box<dyn std::any::Any + Send>) -> String {
    let s = if let Some(s) = p.downcast_ref::<&str>() {
        s.to_string()
    } else if let Some(s) = p.downcast_ref::<String>() {
        s.clone()
    } else {
        "<non-string panic>".to_string()
    };
    // ids print their process-global arena number; keep digests schedule/ambient independent
    let s: String = s.chars().take(300).collect();
    s
}

pub fn parse_with(bytes: &[u8], cfg: &CfgBits) -> (Result<Module, String>, u32) {
    let hooks = Hooks::default();
    let c = make_config(cfg, &hooks);
    let prev = simrt::set_phase(simrt::Phase::Parse);
    let r = c.parse(bytes).map_err(|e| format!("{:#}", e));
    simrt::set_phase(prev);
    (r, hooks.on_parse_calls.load(Ordering::SeqCst))
}

fn collect_custom_ids(m: &Module) -> Vec<walrus::UntypedCustomSectionId> {
    m.customs.iter().map(|(id, _)| id).collect()
}

pub fn customs_seen(m: &Module) -> Vec<CustomSeen> {
    let mut out = Vec::new();
    for (_, s) in m.customs.iter() {
        let any = s.as_any();
        if let Some(r) = any.downcast_ref::<RawCustomSection>() {
            out.push(CustomSeen { name: r.name.clone(), raw: true, data: r.data.clone() });
        } else if let Some(t) = any.downcast_ref::<TypedSec>() {
            out.push(CustomSeen { name: t.name.clone(), raw: false, data: t.payload.clone() });
        } else {
            out.push(CustomSeen { name: s.name().to_string(), raw: false, data: Vec::new() });
        }
    }
    out
}

#[derive(Default)]
struct CountVisitor {
    instrs: u64,
    seqs: u64,
    locals: u64,
    funcs: u64,
    h: u64,
}

impl<'i> Visitor<'i> for CountVisitor {
    fn start_instr_seq(&mut self, seq: &'i walrus::ir::InstrSeq) {
        self.seqs += 1;
        self.h = self.h.wrapping_mul(31).wrapping_add(seq.len() as u64);
    }
    fn visit_instr(&mut self, _i: &'i walrus::ir::Instr, loc: &'i walrus::InstrLocId) {
        self.instrs += 1;
        self.h = self.h.wrapping_mul(31).wrapping_add(if loc.is_default() { 0xffff_ffff } else { loc.data() as u64 });
    }
    fn visit_local_id(&mut self, id: &walrus::LocalId) {
        self.locals += 1;
        self.h = self.h.wrapping_mul(31).wrapping_add(id.index() as u64);
    }
    fn visit_function_id(&mut self, id: &walrus::FunctionId) {
        self.funcs += 1;
        self.h = self.h.wrapping_mul(31).wrapping_add(id.index() as u64);
    }
}

/// Read-only walk over everything reachable through the public API.  Returns a
/// digest that depends only on logical content (never on arena numbers or
/// addresses) and entity counts.
pub fn query(m: &Module) -> (u64, Vec<u32>) {
    use std::fmt::Write;
    let mut s = String::new();
    let mut counts = Vec::new();
    let mut n = 0u32;
    for f in m.funcs.iter() {
        n += 1;
        let _ = write!(s, "f{}:{:?}:t{}", f.id().index(), f.name, f.ty().index());
        match &f.kind {
            walrus::FunctionKind::Local(l) => {
                let mut v = CountVisitor::default();
                walrus::ir::dfs_in_order(&mut v, l, l.entry_block());
                let _ = write!(s, ":L{}:{}:{}:{}:{}:{}", l.size(), l.args.len(), v.instrs, v.seqs, v.locals, v.h);
                let _ = write!(s, ":d{}", l.used_data_segments().len());
            }
            walrus::FunctionKind::Import(i) => {
                let _ = write!(s, ":I{}", i.import.index());
            }
            walrus::FunctionKind::Uninitialized(_) => s.push_str(":U"),
        }
        s.push(';');
    }
    counts.push(n);
    n = 0;
    for t in m.types.iter() {
        n += 1;
        let _ = write!(s, "t{}:{:?}:{:?}:{:?};", t.id().index(), t.params(), t.results(), t.name);
    }
    counts.push(n);
    n = 0;
    for t in m.tables.iter() {
        n += 1;
        let mut segs: Vec<usize> = t.elem_segments.iter().map(|e| e.index()).collect();
        segs.sort();
        let _ = write!(
            s,
            "T{}:{}:{:?}:{:?}:{:?}:{:?}:{:?};",
            t.id().index(),
            t.initial,
            t.maximum,
            t.element_ty,
            t.import.map(|i| i.index()),
            segs,
            t.name
        );
    }
    counts.push(n);
    n = 0;
    for x in m.memories.iter() {
        n += 1;
        let mut segs: Vec<usize> = x.data_segments.iter().map(|e| e.index()).collect();
        segs.sort();
        let _ = write!(
            s,
            "M{}:{}:{}:{}:{:?}:{:?}:{:?}:{:?};",
            x.id().index(),
            x.shared,
            x.memory64,
            x.initial,
            x.maximum,
            x.import.map(|i| i.index()),
            segs,
            x.name
        );
    }
    counts.push(n);
    n = 0;
    for g in m.globals.iter() {
        n += 1;
        let _ = write!(s, "G{}:{:?}:{}:{:?};", g.id().index(), g.ty, g.mutable, g.name);
    }
    counts.push(n);
    n = 0;
    for d in m.data.iter() {
        n += 1;
        let _ = write!(s, "D{}:{}:{}:{:?};", d.id().index(), d.is_passive(), crate::prng::fnv(&d.value), d.name);
    }
    counts.push(n);
    n = 0;
    for e in m.elements.iter() {
        n += 1;
        let k = match e.kind {
            walrus::ElementKind::Passive => 0,
            walrus::ElementKind::Declared => 1,
            walrus::ElementKind::Active { .. } => 2,
        };
        let items = match &e.items {
            walrus::ElementItems::Functions(f) => f.len(),
            walrus::ElementItems::Expressions(_, x) => x.len() + 1000000,
        };
        let _ = write!(s, "E{}:{}:{}:{:?};", e.id().index(), k, items, e.name);
    }
    counts.push(n);
    n = 0;
    for e in m.exports.iter() {
        n += 1;
        let item = match e.item {
            walrus::ExportItem::Function(f) => ("f", f.index()),
            walrus::ExportItem::Table(f) => ("t", f.index()),
            walrus::ExportItem::Memory(f) => ("m", f.index()),
            walrus::ExportItem::Global(f) => ("g", f.index()),
        };
        let _ = write!(s, "X{}:{}:{}{};", e.id().index(), e.name, item.0, item.1);
    }
    counts.push(n);
    n = 0;
    for i in m.imports.iter() {
        n += 1;
        let _ = write!(s, "I{}:{}:{};", i.id().index(), i.module, i.name);
    }
    counts.push(n);
    n = 0;
    for l in m.locals.iter() {
        n += 1;
        let _ = write!(s, "l{}:{:?}:{:?};", l.id().index(), l.ty(), l.name);
    }
    counts.push(n);
    for c in customs_seen(m) {
        let _ = write!(s, "C{}:{}:{};", c.name, c.raw, crate::prng::fnv(&c.data));
    }
    let _ = write!(s, "S{:?};N{:?};", m.start.map(|f| f.index()), m.name);
    let _ = write!(s, "fn{}", m.functions().count());
    (crate::prng::fnv(s.as_bytes()), counts)
}

fn file_target(ctx: &Ctx, t: &FileTarget, step: usize) -> std::path::PathBuf {
    match t {
        FileTarget::Ok => ctx.scratch.join(format!("out-{:016x}-{}.wasm", ctx.run_tag, step)),
        FileTarget::NoSpace => std::path::PathBuf::from("/dev/full"),
        FileTarget::MissingDir => ctx.scratch.join("no-such-dir").join("out.wasm"),
        FileTarget::IsDir => ctx.scratch.to_path_buf(),
    }
}

fn burn_arenas(n: u32) {
    // id-arena's process-global counter: every arena gets the next number.
    for _ in 0..n {
        let a = id_arena::Arena::<u8>::new();
        std::hint::black_box(&a);
    }
}

fn step(st: &mut State, op: &Op, ctx: &Ctx, idx: usize) -> StepOut {
    match op {
        Op::Emit => {
            let prev = simrt::set_phase(simrt::Phase::Emit);
            let bytes = st.module.emit_wasm();
            simrt::set_phase(prev);
            StepOut::Emit { bytes }
        }
        Op::EmitFile { target } => {
            let path = file_target(ctx, target, idx);
            if matches!(target, FileTarget::Ok) && idx % 2 == 0 {
                // the destination may already exist and be LONGER than what is written now (an earlier build's
                // output): the file must end up holding exactly the emitted bytes
                let _ = std::fs::write(&path, vec![0xA5u8; 1 << 20]);
            }
            let r = st.module.emit_wasm_file(&path);
            match r {
                Ok(()) => {
                    let file = std::fs::read(&path).ok();
                    if matches!(target, FileTarget::Ok) {
                        let _ = std::fs::remove_file(&path);
                    }
                    StepOut::EmitFile { ok: true, err: String::new(), file: if matches!(target, FileTarget::Ok) { file } else { None } }
                }
                Err(e) => {
                    // only the class of the I/O error, never its text
                    let kind = e
                        .chain()
                        .find_map(|c| c.downcast_ref::<std::io::Error>().map(|io| format!("{:?}", io.kind())))
                        .unwrap_or_else(|| "other".to_string());
                    StepOut::EmitFile { ok: false, err: kind, file: None }
                }
            }
        }
        Op::Gc => {
            walrus::passes::gc::run(&mut st.module);
            StepOut::Gc
        }
        Op::Reparse { cfg } => {
            let prev = simrt::set_phase(simrt::Phase::Emit);
            let bytes = st.module.emit_wasm();
            simrt::set_phase(prev);
            let (r, calls) = parse_with(&bytes, cfg);
            match r {
                Ok(m) => {
                    st.module = m;
                    st.cfg = cfg.clone();
                    st.custom_ids = collect_custom_ids(&st.module);
                    st.edit_state = edits::EditState::for_module(&st.module);
                    StepOut::Reparsed { emitted: bytes, ok: true, err: String::new(), on_parse_calls: calls }
                }
                Err(e) => StepOut::Reparsed { emitted: bytes, ok: false, err: e, on_parse_calls: calls },
            }
        }
        Op::Query => {
            let (digest, counts) = query(&st.module);
            StepOut::Query { digest, customs: customs_seen(&st.module), counts }
        }
        Op::CustomAddRaw { name, data } => {
            let id = st.module.customs.add(RawCustomSection { name: name.clone(), data: data.clone() });
            st.custom_ids.push(id.into());
            StepOut::Custom { found: true, name: name.clone(), data: data.clone(), panicked: false }
        }
        Op::CustomAddTyped { tag, len } => {
            let name = format!("dst.typed.{}", tag);
            let payload: Vec<u8> = (0..*len).map(|i| (i as u8).wrapping_mul(7).wrapping_add(*tag)).collect();
            let id = st.module.customs.add(TypedSec { name: name.clone(), payload: payload.clone() });
            st.custom_ids.push(id.into());
            StepOut::Custom { found: true, name, data: payload, panicked: false }
        }
        Op::CustomDelete { nth } => {
            if st.custom_ids.is_empty() {
                return StepOut::Custom { found: false, name: String::new(), data: vec![], panicked: false };
            }
            let id = st.custom_ids[*nth as usize % st.custom_ids.len()];
            match st.module.customs.delete(id) {
                Some(b) => {
                    let name = b.name().to_string();
                    let data = if let Some(r) = b.as_any().downcast_ref::<RawCustomSection>() {
                        r.data.clone()
                    } else if let Some(t) = b.as_any().downcast_ref::<TypedSec>() {
                        t.payload.clone()
                    } else {
                        vec![]
                    };
                    StepOut::Custom { found: true, name, data, panicked: false }
                }
                None => StepOut::Custom { found: false, name: String::new(), data: vec![], panicked: false },
            }
        }
        Op::CustomRemoveRaw { name } => match st.module.customs.remove_raw(name) {
            Some(r) => StepOut::Custom { found: true, name: r.name, data: r.data, panicked: false },
            None => StepOut::Custom { found: false, name: String::new(), data: vec![], panicked: false },
        },
        Op::CustomGet { nth } => {
            if st.custom_ids.is_empty() {
                return StepOut::Custom { found: false, name: String::new(), data: vec![], panicked: false };
            }
            let id = st.custom_ids[*nth as usize % st.custom_ids.len()];
            match st.module.customs.get(id) {
                Some(s) => {
                    let data = if let Some(r) = s.as_any().downcast_ref::<RawCustomSection>() {
                        r.data.clone()
                    } else if let Some(t) = s.as_any().downcast_ref::<TypedSec>() {
                        t.payload.clone()
                    } else {
                        vec![]
                    };
                    StepOut::Custom { found: true, name: s.name().to_string(), data, panicked: false }
                }
                None => StepOut::Custom { found: false, name: String::new(), data: vec![], panicked: false },
            }
        }
        Op::BurnArenas { n } => {
            burn_arenas(*n);
            StepOut::Ambient
        }
        Op::Unrelated { which } => {
            if !ctx.unrelated.is_empty() {
                let b = &ctx.unrelated[*which as usize % ctx.unrelated.len()];
                if let (Ok(mut m), _) = parse_with(b, &CfgBits::walrus_default()) {
                    let out = m.emit_wasm();
                    std::hint::black_box(&out);
                }
            }
            StepOut::Ambient
        }
        Op::Edit(e) => {
            let (applied, note) = edits::apply(&mut st.module, &mut st.edit_state, e);
            StepOut::Edit { applied, note }
        }
    }
}

/// Execute one history against real walrus.  Never unwinds: a panic inside
/// walrus ends the history and is recorded in the transcript.
pub fn run_history(input: &[u8], cfg: &CfgBits, ops: &[Op], ambient_burn: u32, ctx: &Ctx) -> Transcript {
    let mut t = Transcript::default();
    burn_arenas(ambient_burn);
    let parsed = catch_unwind(AssertUnwindSafe(|| parse_with(input, cfg)));
    let mut st = match parsed {
        Err(p) => {
            t.steps.push(StepOut::Panic { msg: panic_msg(p) });
            t.steps.extend(ops.iter().map(|_| StepOut::Skipped));
            return t;
        }
        Ok((Err(e), calls)) => {
            t.steps.push(StepOut::Parsed { ok: false, err: e, on_parse_calls: calls });
            t.steps.extend(ops.iter().map(|_| StepOut::Skipped));
            return t;
        }
        Ok((Ok(m), calls)) => {
            t.steps.push(StepOut::Parsed { ok: true, err: String::new(), on_parse_calls: calls });
            let ids = collect_custom_ids(&m);
            let es = edits::EditState::for_module(&m);
            State { module: m, cfg: cfg.clone(), custom_ids: ids, edit_state: es }
        }
    };
    let mut dead = false;
    for (i, op) in ops.iter().enumerate() {
        if dead {
            t.steps.push(StepOut::Skipped);
            continue;
        }
        let r = catch_unwind(AssertUnwindSafe(|| step(&mut st, op, ctx, i)));
        match r {
            Ok(StepOut::Reparsed { emitted, ok: false, err, on_parse_calls }) => {
                // a failed re-parse ends the history (there is no module to continue on)
                t.steps.push(StepOut::Reparsed { emitted, ok: false, err, on_parse_calls });
                dead = true;
            }
            Ok(o) => t.steps.push(o),
            Err(p) => {
                t.steps.push(StepOut::Panic { msg: panic_msg(p) });
                dead = true;
            }
        }
    }
    let _ = &st.cfg;
    t
}

// ---------------------------------------------------------------------------
// C09: public parallel accessors against their serial counterparts

pub const IS_PARALLEL_BUILD: bool = PARALLEL;
