//! Input selection shared by the properties: fixtures, the real-world module,
//! generated modules; custom-section splicing.

use crate::framework::Env;
use crate::gen::{self, GenParams, Recipe};
use crate::prng::Rng;
use crate::types::InputRef;
use crate::wasmsplit;

pub struct Picked {
    pub iref: InputRef,
    pub bytes: Vec<u8>,
    pub recipe: Option<Recipe>,
}

pub fn input_ref(source: &str, bytes: &[u8]) -> InputRef {
    InputRef { source: source.to_string(), bytes_hex: wasmsplit::hex(bytes) }
}

pub fn bytes_of(i: &InputRef) -> Vec<u8> {
    wasmsplit::unhex(&i.bytes_hex).unwrap_or_default()
}

#[derive(Clone, Copy)]
pub struct Mix {
    /// weights out of 100
    pub fixture: u64,
    pub dodrio: u64,
    pub generated: u64,
    pub max_funcs: u32,
    /// only inputs the stand-alone validator accepts
    pub valid_only: bool,
}

pub const DWARF_TAG: &str = "+synth-dwarf";

/// Does the input carry .debug sections, and are they the harness's own well-formed ones?
pub fn debug_status(source: &str, bytes: &[u8]) -> (bool, bool) {
    let has = wasmsplit::customs(bytes).map(|c| c.iter().any(|(n, _)| n.starts_with(b".debug"))).unwrap_or(true);
    (has, has && source.ends_with(DWARF_TAG))
}

/// With probability num/den attach synthesised well-formed DWARF to a valid, DWARF-free module.
pub fn maybe_attach_dwarf(p: Picked, rng: &mut Rng, num: u64, den: u64) -> Picked {
    maybe_attach_dwarf_ex(p, rng, num, den, false)
}

/// `allow_empty`: modules without a local function get DWARF too (a unit without subprograms).
pub fn maybe_attach_dwarf_ex(p: Picked, rng: &mut Rng, num: u64, den: u64, allow_empty: bool) -> Picked {
    if !rng.chance(num, den) {
        return p;
    }
    let (has, _) = debug_status(&p.iref.source, &p.bytes);
    if has || crate::validator::validate(&p.bytes, false).is_err() {
        return p;
    }
    match crate::dwarfgen::attach_ex(&p.bytes, allow_empty) {
        Some(b) => {
            let src = format!("{}{}", p.iref.source.chars().take(400).collect::<String>(), DWARF_TAG);
            Picked { iref: input_ref(&src, &b), bytes: b, recipe: p.recipe }
        }
        None => p,
    }
}

pub fn pick(env: &Env, rng: &mut Rng, mix: &Mix) -> Picked {
    for _ in 0..50 {
        let r = rng.below(mix.fixture + mix.dodrio + mix.generated);
        let p = if r < mix.fixture {
            let fixtures: Vec<&crate::corpus::Input> = env.corpus.iter().filter(|c| c.source != "dodrio").collect();
            let c = fixtures[rng.usize_below(fixtures.len())];
            Picked { iref: input_ref(&c.source, &c.bytes), bytes: c.bytes.clone(), recipe: None }
        } else if r < mix.fixture + mix.dodrio {
            match env.corpus.iter().find(|c| c.source == "dodrio") {
                Some(c) => Picked { iref: input_ref("dodrio", &c.bytes), bytes: c.bytes.clone(), recipe: None },
                None => continue,
            }
        } else {
            let p = GenParams::draw(rng, mix.max_funcs);
            let g = gen::generate(&p);
            Picked { iref: input_ref(&format!("gen:{}", serde_json::to_string(&p).unwrap()), &g.bytes), bytes: g.bytes, recipe: Some(g.recipe) }
        };
        if mix.valid_only && crate::validator::validate(&p.bytes, false).is_err() {
            continue;
        }
        return p;
    }
    // fall back to the smallest valid module
    let b = vec![0, 0x61, 0x73, 0x6d, 1, 0, 0, 0];
    Picked { iref: input_ref("bytes:empty-module", &b), bytes: b, recipe: None }
}

/// Splice `n` unknown custom sections at random section boundaries.
/// Returns the new bytes.
pub fn splice_customs(bytes: &[u8], rng: &mut Rng, n: u32) -> Vec<u8> {
    let mut out = bytes.to_vec();
    // (the `.debug*` names are sections walrus interprets: they are not part of C12's statement themselves, but
    // uninterpreted sections must keep their payload, multiplicity and relative order AROUND them)
    const NAMES: &[&str] = &["foo", "", "bar", "foo", "linking", "names", "producer", "debug_info", "ünï", "target_features", ".Debug_x", "name2", ".debug_str", ".debug_info", ".debug_x", "baz"];
    // names whose length needs a two-byte LEB prefix (128 bytes and more)
    let long_a: String = "long-name-".chars().cycle().take(128).collect();
    let long_b: String = "l0ng.".chars().cycle().take(300).collect();
    for _ in 0..n {
        let name: &str = match rng.below(14) {
            0 => &long_a,
            1 => &long_b,
            _ => *rng.pick(NAMES),
        };
        let len = gen::boundary_len(rng);
        let data = rng.bytes(len);
        // one section in eight has non-canonical (padded) length fields: legal on input, canonical on output,
        // name and payload bytes unchanged
        let sec = if rng.below(8) == 0 {
            let (sp, np) = *rng.pick(&[(0usize, 1usize), (1, 0), (2, 3), (4, 4)]);
            wasmsplit::custom_section_bytes_padded(name.as_bytes(), &data, sp, np)
        } else {
            wasmsplit::custom_section_bytes(name.as_bytes(), &data)
        };
        let nsec = wasmsplit::split(&out).map(|s| s.len()).unwrap_or(0);
        let at = match rng.below(4) {
            0 => 0,
            1 => nsec,
            _ => rng.usize_below(nsec + 1),
        };
        if let Some(b) = wasmsplit::insert_section(&out, at, &sec) {
            out = b;
        }
    }
    out
}
