//! Small well-formed DWARF (v4, 32-bit, address size 4) for a given module,
//! built with gimli::write (independent of walrus): one compile unit, one
//! subprogram per function, one line sequence per function with one row per
//! instruction.  Addresses are offsets from the start of the code section
//! contents, as the wasm DWARF convention (and walrus) expects.

use gimli::write::{Address, AttributeValue, Dwarf, EndianVec, LineProgram, LineString, Sections, Unit};
use gimli::{Encoding, Format, LineEncoding, LittleEndian};

pub struct FuncLayout {
    /// start of the function's entry (its size LEB) relative to the code section contents
    pub start: u64,
    pub end: u64,
    /// instruction offsets relative to the code section contents
    pub instrs: Vec<u64>,
}

/// Read the code section layout with wasmparser's low-level readers.
pub fn layout(bytes: &[u8]) -> Option<Vec<FuncLayout>> {
    let mut out = Vec::new();
    let mut code_start: Option<usize> = None;
    for p in wasmparser::Parser::new(0).parse_all(bytes) {
        match p.ok()? {
            wasmparser::Payload::CodeSectionStart { range, .. } => code_start = Some(range.start),
            wasmparser::Payload::CodeSectionEntry(body) => {
                let cs = code_start?;
                let r = body.range();
                let mut instrs = Vec::new();
                let mut ops = body.get_operators_reader().ok()?;
                while !ops.eof() {
                    let (_, off) = ops.read_with_offset().ok()?;
                    instrs.push((off - cs) as u64);
                }
                // the entry starts at its size LEB, which precedes body.range()
                let size = r.end - r.start;
                let leb_len = crate::wasmsplit::leb_u32(size as u32).len();
                out.push(FuncLayout { start: (r.start - leb_len - cs) as u64, end: (r.end - cs) as u64, instrs });
            }
            _ => {}
        }
    }
    Some(out)
}

/// The `.debug_*` custom sections (name, payload) describing `bytes`.
pub fn synthesize(bytes: &[u8]) -> Option<Vec<(String, Vec<u8>)>> {
    synthesize_ex(bytes, false)
}

/// `allow_empty`: also describe a module WITHOUT any local function (a compile unit with no subprogram and an
/// empty line program) instead of declining.
pub fn synthesize_ex(bytes: &[u8], allow_empty: bool) -> Option<Vec<(String, Vec<u8>)>> {
    let funcs = layout(bytes)?;
    if funcs.is_empty() && !allow_empty {
        return None;
    }
    let encoding = Encoding { format: Format::Dwarf32, version: 4, address_size: 4 };
    let mut dwarf = Dwarf::new();
    let lp = LineProgram::new(encoding, LineEncoding::default(), LineString::String(b"/src".to_vec()), LineString::String(b"m.c".to_vec()), None);
    let uid = dwarf.units.add(Unit::new(encoding, lp));
    let unit = dwarf.units.get_mut(uid);
    let root = unit.root();
    let code_end = funcs.iter().map(|f| f.end).max().unwrap_or(0);
    {
        let e = unit.get_mut(root);
        e.set(gimli::DW_AT_producer, AttributeValue::String(b"walrus-dst".to_vec()));
        e.set(gimli::DW_AT_language, AttributeValue::Language(gimli::DW_LANG_C99));
        e.set(gimli::DW_AT_name, AttributeValue::String(b"m.c".to_vec()));
        e.set(gimli::DW_AT_comp_dir, AttributeValue::String(b"/src".to_vec()));
        e.set(gimli::DW_AT_low_pc, AttributeValue::Address(Address::Constant(0)));
        e.set(gimli::DW_AT_high_pc, AttributeValue::Udata(code_end));
    }
    for (i, f) in funcs.iter().enumerate() {
        let sp = unit.add(root, gimli::DW_TAG_subprogram);
        let e = unit.get_mut(sp);
        e.set(gimli::DW_AT_name, AttributeValue::String(format!("fn{}", i).into_bytes()));
        // a subprogram covers the function's instructions (first instruction .. end of entry)
        let lo = f.instrs.first().copied().unwrap_or(f.start);
        e.set(gimli::DW_AT_low_pc, AttributeValue::Address(Address::Constant(lo)));
        e.set(gimli::DW_AT_high_pc, AttributeValue::Udata(f.end - lo));
    }
    let dir = unit.line_program.default_directory();
    let file = unit.line_program.add_file(LineString::String(b"m.c".to_vec()), dir, None);
    let mut line = 1u64;
    for f in &funcs {
        let Some(first) = f.instrs.first().copied() else { continue };
        unit.line_program.begin_sequence(Some(Address::Constant(first)));
        for off in &f.instrs {
            let row = unit.line_program.row();
            row.address_offset = off - first;
            row.file = file;
            row.line = line;
            line += 1;
            unit.line_program.generate_row();
        }
        unit.line_program.end_sequence(f.end - first);
    }
    let mut sections = Sections::new(EndianVec::new(LittleEndian));
    dwarf.write(&mut sections).ok()?;
    let mut out = Vec::new();
    sections
        .for_each(|id, data| -> Result<(), ()> {
            if !data.slice().is_empty() {
                out.push((id.name().to_string(), data.slice().to_vec()));
            }
            Ok(())
        })
        .ok()?;
    Some(out)
}

/// Append the synthesised DWARF sections to a module.
pub fn attach(bytes: &[u8]) -> Option<Vec<u8>> {
    attach_ex(bytes, false)
}

pub fn attach_ex(bytes: &[u8], allow_empty: bool) -> Option<Vec<u8>> {
    let secs = synthesize_ex(bytes, allow_empty)?;
    let mut out = bytes.to_vec();
    for (name, data) in secs {
        out.extend_from_slice(&crate::wasmsplit::custom_section_bytes(name.as_bytes(), &data));
    }
    Some(out)
}
