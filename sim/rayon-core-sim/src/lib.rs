//! Simulated `rayon-core`.
//!
//! rayon 1.12's iterator layer reaches the thread pool through exactly five
//! entry points: `join_context`, `join`, `current_num_threads`,
//! `current_thread_index` (only `par_bridge`) and `in_place_scope` +
//! `Scope::spawn` (only `skip`).  This crate has the same name and version as
//! the real one and is patched in by the simulator workspace, so that *real*
//! walrus, *real* rayon iterators/collect/bridge and the *real* id-arena rayon
//! feature run on a scheduler the simulator owns (shuttle).  Every other item
//! rayon re-exports exists here so that the crate graph links; those that no
//! walrus-reachable code path uses panic with a clear message.
//!
//! Per-run state lives in `std::thread_local!` (one simulated run = one fresh
//! OS thread; shuttle tasks are coroutines on that thread), per-task state in
//! `shuttle::thread_local!`.
#![allow(clippy::type_complexity)]

use std::any::Any;
use std::cell::{Cell, RefCell};
use std::marker::PhantomData;
use std::panic::{self, AssertUnwindSafe};

pub mod sim {
    //! Control surface used by the harness (not part of rayon-core's API).
    use super::*;

    /// Knobs of one simulated run.
    #[derive(Clone, Copy, Debug)]
    pub struct Knobs {
        /// simulated pool width T (what `current_num_threads` reports)
        pub threads: usize,
        /// probability (out of 65536) that the `b` side of a join is stolen
        pub steal_p: u32,
    }

    /// What actually happened in one run.
    #[derive(Clone, Debug, Default)]
    pub struct Stats {
        pub joins: u64,
        pub steals: u64,
        pub scope_spawns: u64,
        pub max_live_workers: u64,
        /// FNV hash of the (len-free) split tree: sequence of join depths and steal bits
        pub split_tree_hash: u64,
        /// join nesting depth high-water mark
        pub max_depth: u64,
        /// joins where at least one side panicked
        pub panicked_joins: u64,
        /// entry points reached that walrus does not use today
        pub unusual_entry: u64,
    }

    std::thread_local! {
        pub(crate) static KNOBS: Cell<Option<Knobs>> = const { Cell::new(None) };
        pub(crate) static STATS: RefCell<Stats> = RefCell::new(Stats::default());
        pub(crate) static LIVE: Cell<u64> = const { Cell::new(0) };
        pub(crate) static USED_IDX: RefCell<Vec<bool>> = const { RefCell::new(Vec::new()) };
    }

    /// Arm the simulator for the run executing on this OS thread.
    pub fn begin(k: Knobs) {
        assert!(k.threads >= 1);
        KNOBS.with(|c| c.set(Some(k)));
        STATS.with(|s| *s.borrow_mut() = Stats { split_tree_hash: 0xcbf29ce484222325, ..Stats::default() });
        LIVE.with(|l| l.set(0));
        USED_IDX.with(|u| {
            let mut u = u.borrow_mut();
            u.clear();
            u.resize(k.threads, false);
            u[0] = true; // the root task is simulated worker 0
        });
    }

    /// Disarm and return what happened.
    pub fn end() -> Stats {
        KNOBS.with(|c| c.set(None));
        STATS.with(|s| std::mem::take(&mut *s.borrow_mut()))
    }

    pub fn active() -> bool {
        KNOBS.with(|c| c.get().is_some())
    }

    /// Simulated worker index of the calling task (0 for the root task).
    pub fn worker_index() -> usize {
        if active() {
            super::WORKER.with(|w| w.get())
        } else {
            0
        }
    }

    pub(crate) fn mix(v: u64) {
        STATS.with(|s| {
            let mut s = s.borrow_mut();
            s.split_tree_hash = (s.split_tree_hash ^ v).wrapping_mul(0x100000001b3);
        });
    }
}

shuttle::thread_local! {
    static WORKER: Cell<usize> = Cell::new(0);
    static DEPTH: Cell<u64> = Cell::new(0);
}

fn in_shuttle() -> bool {
    sim::active() && shuttle::current::get_current_task().is_some()
}

// ---------------------------------------------------------------------------
// join / join_context

/// Provides context to a closure called by `join_context`.
#[derive(Debug)]
pub struct FnContext {
    migrated: bool,
    _marker: PhantomData<*mut ()>,
}

impl FnContext {
    #[inline]
    fn new(migrated: bool) -> Self {
        FnContext { migrated, _marker: PhantomData }
    }

    /// Returns `true` if the closure was called from a different thread
    /// than it was provided from.
    #[inline]
    pub fn migrated(&self) -> bool {
        self.migrated
    }
}

pub fn join<A, B, RA, RB>(oper_a: A, oper_b: B) -> (RA, RB)
where
    A: FnOnce() -> RA + Send,
    B: FnOnce() -> RB + Send,
    RA: Send,
    RB: Send,
{
    join_context(move |_| oper_a(), move |_| oper_b())
}

struct SendPtr<T>(*mut T);
unsafe impl<T> Send for SendPtr<T> {}

fn alloc_worker() -> Option<usize> {
    sim::USED_IDX.with(|u| {
        let mut u = u.borrow_mut();
        let i = u.iter().position(|b| !*b)?;
        u[i] = true;
        Some(i)
    })
}

fn free_worker(i: usize) {
    sim::USED_IDX.with(|u| u.borrow_mut()[i] = false);
}

/// Run `f` as a simulated stolen job on its own shuttle task; returns a handle
/// that MUST be joined before the borrowed environment of `f` goes away.
fn spawn_erased<'a>(idx: usize, f: Box<dyn FnOnce() + Send + 'a>) -> shuttle::thread::JoinHandle<()> {
    // Same lifetime erasure as rayon-core's StackJob: the caller joins on every
    // path (including unwinding) before returning.
    let f: Box<dyn FnOnce() + Send + 'static> = unsafe { std::mem::transmute(f) };
    sim::LIVE.with(|l| {
        let n = l.get() + 1;
        l.set(n);
        sim::STATS.with(|s| {
            let mut s = s.borrow_mut();
            if n > s.max_live_workers {
                s.max_live_workers = n;
            }
        });
    });
    shuttle::thread::spawn(move || {
        WORKER.with(|w| w.set(idx));
        f();
        sim::LIVE.with(|l| l.set(l.get() - 1));
        free_worker(idx);
    })
}

pub fn join_context<A, B, RA, RB>(oper_a: A, oper_b: B) -> (RA, RB)
where
    A: FnOnce(FnContext) -> RA + Send,
    B: FnOnce(FnContext) -> RB + Send,
    RA: Send,
    RB: Send,
{
    // A THIN generic shell: this function is monomorphised inside the caller's crate (and so would be
    // instrumented / optimised with it); everything the simulator does happens in the non-generic
    // `join_erased` below, compiled once in this crate.
    let mut a = Some(oper_a);
    let mut b = Some(oper_b);
    let mut ra: Option<RA> = None;
    let mut rb: Option<RB> = None;
    {
        let mut call_a = |migrated: bool| {
            ra = Some((a.take().expect("join side a called twice"))(FnContext::new(migrated)));
        };
        let mut call_b = |migrated: bool| {
            rb = Some((b.take().expect("join side b called twice"))(FnContext::new(migrated)));
        };
        join_erased(&mut call_a, &mut call_b);
    }
    (ra.expect("join side a did not run"), rb.expect("join side b did not run"))
}

/// The simulated fork-join.  Both closures have run (or their panic is being re-raised) when this returns.
fn join_erased(call_a: &mut (dyn FnMut(bool) + Send), call_b: &mut (dyn FnMut(bool) + Send)) {
    if !in_shuttle() {
        // Outside a simulated run: behave like a one-thread pool.
        call_a(false);
        call_b(false);
        return;
    }
    let knobs = sim::KNOBS.with(|c| c.get()).unwrap();
    let depth = DEPTH.with(|d| d.get());
    sim::STATS.with(|s| {
        let mut s = s.borrow_mut();
        s.joins += 1;
        if depth + 1 > s.max_depth {
            s.max_depth = depth + 1;
        }
    });

    // The steal decision is drawn through shuttle's data source, i.e. from the
    // simulator's scheduler: it is recorded in, and replayed from, the schedule.
    let mut steal = false;
    let mut idx = 0usize;
    if knobs.threads > 1 && knobs.steal_p > 0 {
        use shuttle::rand::Rng;
        let draw = (shuttle::rand::thread_rng().gen::<u64>() & 0xffff) as u32;
        if draw < knobs.steal_p {
            if let Some(i) = alloc_worker() {
                steal = true;
                idx = i;
            }
        }
    }
    sim::mix((depth << 1) | steal as u64);

    if !steal {
        DEPTH.with(|d| d.set(depth + 1));
        let pa = panic::catch_unwind(AssertUnwindSafe(|| call_a(false))).err();
        // rayon: while recovering from a panic in `a` the worker still executes the pending `b`
        let pb = panic::catch_unwind(AssertUnwindSafe(|| call_b(false))).err();
        DEPTH.with(|d| d.set(depth));
        if let Some(p) = pa.or(pb) {
            sim::STATS.with(|s| s.borrow_mut().panicked_joins += 1);
            panic::resume_unwind(p);
        }
        return;
    }

    sim::STATS.with(|s| s.borrow_mut().steals += 1);
    let mut slot_b: Option<Box<dyn Any + Send>> = None;
    let slot_ptr = SendPtr(&mut slot_b as *mut Option<Box<dyn Any + Send>>);
    let child_depth = depth + 1;
    let job: Box<dyn FnOnce() + Send + '_> = Box::new(move || {
        let slot_ptr = slot_ptr;
        DEPTH.with(|d| d.set(child_depth));
        if let Err(p) = panic::catch_unwind(AssertUnwindSafe(|| call_b(true))) {
            // SAFETY: the parent is blocked in `join()` (or has not reached it yet)
            // and does not touch the slot until the join returned.
            unsafe { *slot_ptr.0 = Some(p) };
        }
    });
    let handle = spawn_erased(idx, job);
    DEPTH.with(|d| d.set(depth + 1));
    let pa = panic::catch_unwind(AssertUnwindSafe(|| call_a(false))).err();
    DEPTH.with(|d| d.set(depth));
    // Join on every path before the borrowed environment can go away.
    if handle.join().is_err() {
        // The job wrapper itself cannot panic (call_b is caught); a failure here
        // is shuttle tearing the execution down.
        panic!("rayon-core-sim: stolen job did not complete");
    }
    if let Some(p) = pa.or(slot_b.take()) {
        sim::STATS.with(|s| s.borrow_mut().panicked_joins += 1);
        panic::resume_unwind(p);
    }
}

// ---------------------------------------------------------------------------
// thread-count queries

pub fn current_num_threads() -> usize {
    match sim::KNOBS.with(|c| c.get()) {
        Some(k) => k.threads,
        None => 1,
    }
}

pub fn current_thread_index() -> Option<usize> {
    if in_shuttle() {
        Some(WORKER.with(|w| w.get()))
    } else {
        Some(0)
    }
}

pub fn max_num_threads() -> usize {
    1 << 16
}

// ---------------------------------------------------------------------------
// scopes (rayon's `skip` uses in_place_scope + Scope::spawn)

pub struct Scope<'scope> {
    handles: RefCell<Vec<shuttle::thread::JoinHandle<()>>>,
    panic: std::sync::Mutex<Option<Box<dyn Any + Send>>>,
    _marker: PhantomData<Box<dyn FnOnce(&Scope<'scope>) + Send + Sync + 'scope>>,
}

// Safety: under the simulator all tasks of a run share one OS thread; outside
// it nothing is spawned.
unsafe impl Sync for Scope<'_> {}
unsafe impl Send for Scope<'_> {}

impl std::fmt::Debug for Scope<'_> {
    fn fmt(&self, f: &mut std::fmt::Formatter<'_>) -> std::fmt::Result {
        f.write_str("Scope(sim)")
    }
}

impl<'scope> Scope<'scope> {
    fn new() -> Self {
        Scope { handles: RefCell::new(Vec::new()), panic: std::sync::Mutex::new(None), _marker: PhantomData }
    }

    pub fn spawn<BODY>(&self, body: BODY)
    where
        BODY: FnOnce(&Scope<'scope>) + Send + 'scope,
    {
        sim::STATS.with(|s| {
            let mut s = s.borrow_mut();
            s.scope_spawns += 1;
            s.unusual_entry += 1;
        });
        let run = move |this: &Scope<'scope>| {
            if let Err(p) = panic::catch_unwind(AssertUnwindSafe(|| body(this))) {
                let mut g = this.panic.lock().unwrap_or_else(|e| e.into_inner());
                if g.is_none() {
                    *g = Some(p);
                }
            }
        };
        if in_shuttle() {
            if let Some(idx) = alloc_worker() {
                let this = SendPtr(self as *const Scope<'scope> as *mut Scope<'scope>);
                let job: Box<dyn FnOnce() + Send + '_> = Box::new(move || {
                    let this = this;
                    // SAFETY: the scope joins every handle before it returns.
                    run(unsafe { &*this.0 })
                });
                let h = spawn_erased(idx, job);
                self.handles.borrow_mut().push(h);
                return;
            }
        }
        run(self);
    }

    pub fn spawn_broadcast<BODY>(&self, _body: BODY)
    where
        BODY: Fn(&Scope<'scope>, BroadcastContext<'_>) + Send + Sync + 'scope,
    {
        unsupported("Scope::spawn_broadcast")
    }

    fn finish(&self) {
        loop {
            let h = self.handles.borrow_mut().pop();
            match h {
                Some(h) => {
                    let _ = h.join();
                }
                None => break,
            }
        }
        let p = self.panic.lock().unwrap_or_else(|e| e.into_inner()).take();
        if let Some(p) = p {
            panic::resume_unwind(p);
        }
    }
}

fn run_scope<'scope, OP, R>(op: OP) -> R
where
    OP: FnOnce(&Scope<'scope>) -> R,
{
    let scope = Scope::new();
    let r = panic::catch_unwind(AssertUnwindSafe(|| op(&scope)));
    scope.finish();
    match r {
        Ok(r) => r,
        Err(p) => panic::resume_unwind(p),
    }
}

pub fn in_place_scope<'scope, OP, R>(op: OP) -> R
where
    OP: FnOnce(&Scope<'scope>) -> R,
{
    run_scope(op)
}

pub fn scope<'scope, OP, R>(op: OP) -> R
where
    OP: FnOnce(&Scope<'scope>) -> R + Send,
    R: Send,
{
    run_scope(op)
}

pub struct ScopeFifo<'scope> {
    inner: Scope<'scope>,
}

impl std::fmt::Debug for ScopeFifo<'_> {
    fn fmt(&self, f: &mut std::fmt::Formatter<'_>) -> std::fmt::Result {
        f.write_str("ScopeFifo(sim)")
    }
}

impl<'scope> ScopeFifo<'scope> {
    pub fn spawn_fifo<BODY>(&self, body: BODY)
    where
        BODY: FnOnce(&ScopeFifo<'scope>) + Send + 'scope,
    {
        let this = SendPtr(self as *const ScopeFifo<'scope> as *mut ScopeFifo<'scope>);
        self.inner.spawn(move |_| {
            let this = this;
            body(unsafe { &*this.0 })
        });
    }

    pub fn spawn_broadcast<BODY>(&self, _body: BODY)
    where
        BODY: Fn(&ScopeFifo<'scope>, BroadcastContext<'_>) + Send + Sync + 'scope,
    {
        unsupported("ScopeFifo::spawn_broadcast")
    }
}

pub fn in_place_scope_fifo<'scope, OP, R>(op: OP) -> R
where
    OP: FnOnce(&ScopeFifo<'scope>) -> R,
{
    let s = ScopeFifo { inner: Scope::new() };
    let r = panic::catch_unwind(AssertUnwindSafe(|| op(&s)));
    s.inner.finish();
    match r {
        Ok(r) => r,
        Err(p) => panic::resume_unwind(p),
    }
}

pub fn scope_fifo<'scope, OP, R>(op: OP) -> R
where
    OP: FnOnce(&ScopeFifo<'scope>) -> R + Send,
    R: Send,
{
    in_place_scope_fifo(op)
}

// ---------------------------------------------------------------------------
// everything else rayon re-exports: present so the graph links; not reachable
// from walrus today.  Reaching one is reported by the harness as a harness
// limitation (exit 2), never as a property violation.

#[cold]
fn unsupported(what: &str) -> ! {
    sim::STATS.with(|s| s.borrow_mut().unusual_entry += 1);
    panic!("rayon-core-sim: `{what}` is not modelled by the simulator (HARNESS-LIMIT)")
}

pub fn spawn<F>(_func: F)
where
    F: FnOnce() + Send + 'static,
{
    unsupported("spawn")
}

pub fn spawn_fifo<F>(_func: F)
where
    F: FnOnce() + Send + 'static,
{
    unsupported("spawn_fifo")
}

pub struct BroadcastContext<'a> {
    _marker: PhantomData<&'a mut dyn Fn()>,
}

impl std::fmt::Debug for BroadcastContext<'_> {
    fn fmt(&self, f: &mut std::fmt::Formatter<'_>) -> std::fmt::Result {
        f.write_str("BroadcastContext(sim)")
    }
}

impl BroadcastContext<'_> {
    pub fn index(&self) -> usize {
        0
    }
    pub fn num_threads(&self) -> usize {
        current_num_threads()
    }
}

pub fn broadcast<OP, R>(_op: OP) -> Vec<R>
where
    OP: Fn(BroadcastContext<'_>) -> R + Sync,
    R: Send,
{
    unsupported("broadcast")
}

pub fn spawn_broadcast<OP>(_op: OP)
where
    OP: Fn(BroadcastContext<'_>) + Send + Sync + 'static,
{
    unsupported("spawn_broadcast")
}

#[derive(Debug, Clone, Copy, PartialEq, Eq)]
pub enum Yield {
    Executed,
    Idle,
}

pub fn yield_now() -> Option<Yield> {
    if in_shuttle() {
        shuttle::thread::sleep(std::time::Duration::ZERO);
        Some(Yield::Idle)
    } else {
        None
    }
}

pub fn yield_local() -> Option<Yield> {
    yield_now()
}

#[derive(Debug)]
pub struct ThreadPoolBuildError {
    _private: (),
}

impl std::fmt::Display for ThreadPoolBuildError {
    fn fmt(&self, f: &mut std::fmt::Formatter<'_>) -> std::fmt::Result {
        f.write_str("rayon-core-sim: thread pools are not modelled")
    }
}

impl std::error::Error for ThreadPoolBuildError {}

#[derive(Debug)]
pub struct ThreadBuilder {
    _private: (),
}

impl ThreadBuilder {
    pub fn index(&self) -> usize {
        0
    }
    pub fn name(&self) -> Option<&str> {
        None
    }
    pub fn stack_size(&self) -> Option<usize> {
        None
    }
    pub fn run(self) {}
}

#[derive(Debug)]
pub struct ThreadPool {
    _private: (),
}

impl ThreadPool {
    pub fn install<OP, R>(&self, op: OP) -> R
    where
        OP: FnOnce() -> R + Send,
        R: Send,
    {
        op()
    }
    pub fn current_num_threads(&self) -> usize {
        current_num_threads()
    }
    pub fn current_thread_index(&self) -> Option<usize> {
        current_thread_index()
    }
    pub fn join<A, B, RA, RB>(&self, a: A, b: B) -> (RA, RB)
    where
        A: FnOnce() -> RA + Send,
        B: FnOnce() -> RB + Send,
        RA: Send,
        RB: Send,
    {
        join(a, b)
    }
}

#[derive(Debug, Default)]
pub struct DefaultSpawn;

#[derive(Debug)]
pub struct ThreadPoolBuilder<S = DefaultSpawn> {
    num_threads: usize,
    _spawn: PhantomData<S>,
}

impl Default for ThreadPoolBuilder {
    fn default() -> Self {
        ThreadPoolBuilder { num_threads: 0, _spawn: PhantomData }
    }
}

impl ThreadPoolBuilder {
    pub fn new() -> Self {
        Self::default()
    }
}

impl<S> ThreadPoolBuilder<S> {
    pub fn num_threads(mut self, n: usize) -> Self {
        self.num_threads = n;
        self
    }
    pub fn build(self) -> Result<ThreadPool, ThreadPoolBuildError> {
        Ok(ThreadPool { _private: () })
    }
    pub fn build_global(self) -> Result<(), ThreadPoolBuildError> {
        Ok(())
    }
}
