#!/bin/sh
# rustc wrapper of the simulator workspace: the PARALLEL shadow build of walrus (crate walrus_par) is compiled
# with LLVM's SanitizerCoverage trace-pc-guard instrumentation, i.e. a call to __sanitizer_cov_trace_pc_guard at
# every control-flow edge.  The harness defines that symbol as a cooperative scheduling point, which gives the
# simulated scheduler preemption at basic-block granularity INSIDE the per-function parse / emit closures
# without touching /repo.  Every other crate (walrus_ser, the harness, dependencies) is compiled unchanged.
rustc="$1"; shift
case " $* " in
  *" --crate-name walrus_par "*)
    exec "$rustc" "$@" -Cpasses=sancov-module -Cllvm-args=-sanitizer-coverage-level=3 -Cllvm-args=-sanitizer-coverage-trace-pc-guard
    ;;
  *)
    exec "$rustc" "$@"
    ;;
esac
