#!/bin/sh
# rustc wrapper of the simulator workspace: the PARALLEL shadow build of walrus (crate walrus_par) is compiled
# with two LLVM instrumentations, both of which only insert calls to symbols the harness defines (simrt.rs):
#  * SanitizerCoverage trace-pc-guard: a call to __sanitizer_cov_trace_pc_guard at every control-flow edge;
#  * ThreadSanitizer's pass restricted to ATOMIC operations (no memory-access, function-entry or memintrinsic
#    instrumentation, and the tsan runtime is NOT linked): every atomic load / store / rmw / cmpxchg / fence
#    executed by code generated in walrus_par -- including std::sync and dependency generics instantiated there --
#    becomes a call __tsan_atomicN_*(...), which the harness implements as "scheduling point, then the operation".
# Both give the simulated scheduler preemption INSIDE the per-function parse / emit closures without touching
# /repo.  walrus is 100% safe Rust, so tasks can only communicate through synchronisation operations; switching
# right before each of them is the classic complete reduction for controlled concurrency testing.
# -Zsanitizer needs RUSTC_BOOTSTRAP on the stable toolchain; it is set for this one crate only.
# Every other crate (walrus_ser, the harness, dependencies) is compiled unchanged.
rustc="$1"; shift
case " $* " in
  *" --crate-name walrus_par "*)
    RUSTC_BOOTSTRAP=1 exec "$rustc" "$@" -Cpasses=sancov-module -Cllvm-args=-sanitizer-coverage-level=3 -Cllvm-args=-sanitizer-coverage-trace-pc-guard \
      -Zsanitizer=thread -Cunsafe-allow-abi-mismatch=sanitizer \
      -Cllvm-args=-tsan-instrument-memory-accesses=0 -Cllvm-args=-tsan-instrument-func-entry-exit=0 -Cllvm-args=-tsan-instrument-memintrinsics=0
    ;;
  *" --crate-name walrus_dst "*)
    # the harness links the instrumented crate: acknowledge the (purely nominal: no runtime, no ABI change
    # with memory-access instrumentation off) sanitizer mismatch
    exec "$rustc" "$@" -Cunsafe-allow-abi-mismatch=sanitizer
    ;;
  *)
    exec "$rustc" "$@"
    ;;
esac
