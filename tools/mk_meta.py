#!/usr/bin/env python3
"""mk_meta.py <seed-name> <property> <worktree> <check> <oracle> <observed> <strengthening> <breaks> <needs>"""
import json, sys
name, prop, wt, check, oracle, observed, strengthening, breaks, needs = sys.argv[1:10]
m = {
 "property": prop,
 "breaks": breaks,
 "needs_to_manifest": needs,
 "origin": "independent sub-agent given only the property text, a requested flavour of breakage and a scratch worktree of /repo (HEAD 2ab94d8); nothing from /verif",
 "confirmed_by_me": {
  "worktree": wt + " (removed afterwards)",
  "commands": [
   "tools/confirm_seed.sh %s A  (demo unpatched: passes; patch applied: cargo nextest run --workspace --no-fail-fast --offline = 134 passed / same 5 walrus-fuzz-utils failures; cargo build --offline --features parallel ok; demo fails)" % wt,
   "tools/try_seed.sh seeded/%s/patch.diff %s  (git -C /repo apply; ./check %s quick; git -C /repo checkout -- .)" % (name, check, check),
  ],
 },
 "detected_by": {"check": check, "oracle": oracle, "observed": observed},
 "strengthening": strengthening,
}
json.dump(m, open('/verif/seeded/%s/meta.json' % name, 'w'), indent=1)
print("wrote", name)
