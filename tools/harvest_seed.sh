#!/bin/bash
# harvest_seed.sh <worktree> <seed-name> [seed-dir] : copy a sub-agent's deliverables (<seed-dir>/patch.diff, notes.md, demo/; default seed-dir "seed") into
# /verif/seeded/<seed-name>/ (without build output).  Confirmation (tools/confirm_seed.sh) and meta.json are separate.
set -eu
WT="$1"; NAME="$2"; SD="${3:-seed}"
D=/verif/seeded/$NAME
mkdir -p "$D"
cp "$WT/$SD/patch.diff" "$D/patch.diff"
cp "$WT/$SD/notes.md" "$D/notes.md" 2>/dev/null || true
rm -rf "$D/demo"; mkdir -p "$D/demo"
rsync -a --exclude target --exclude '*.log' --exclude Cargo.lock "$WT/$SD/demo/" "$D/demo/"
du -sh "$D"
