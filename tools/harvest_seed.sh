#!/bin/bash
# harvest_seed.sh <worktree> <seed-name> : copy a sub-agent's deliverables (seed/patch.diff, notes.md, demo/) into
# /verif/seeded/<seed-name>/ (without build output).  Confirmation (tools/confirm_seed.sh) and meta.json are separate.
set -eu
WT="$1"; NAME="$2"
D=/verif/seeded/$NAME
mkdir -p "$D"
cp "$WT/seed/patch.diff" "$D/patch.diff"
cp "$WT/seed/notes.md" "$D/notes.md" 2>/dev/null || true
rm -rf "$D/demo"; mkdir -p "$D/demo"
rsync -a --exclude target --exclude '*.log' --exclude Cargo.lock "$WT/seed/demo/" "$D/demo/"
du -sh "$D"
