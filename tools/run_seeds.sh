#!/bin/bash
# run_seeds.sh: apply every seeded change under /verif/seeded in turn, run the quick check of the property it
# breaks, revert, and print one line per seed.  /repo must be clean.  Writes seeded/RESULTS.md.
# Seeds marked "slow" in their meta.json (a hang that the watchdog has to wait out: ~19 min) are skipped unless SLOW=1.
cd /verif || exit 2
out=seeded/RESULTS.md
echo "| seeded change | property | quick check exit | first oracle reported | wall |" > $out
echo "|---|---|---|---|---|" >> $out
for d in seeded/*/; do
  n=$(basename $d)
  prop=$(python3 -c "import json;print(json.load(open('$d/meta.json'))['detected_by']['check'].split()[0])")
  slow=$(python3 -c "import json;print(json.load(open('$d/meta.json')).get('slow',False))")
  if [ "$slow" = "True" ] && [ -z "${SLOW:-}" ]; then echo "$n $prop skipped (slow)"; echo "| $n | $prop | skipped (slow, see meta.json) | - | - |" >> $out; continue; fi
  if ! git -C /repo diff --quiet; then echo "/repo dirty" >&2; exit 2; fi
  git -C /repo apply "/verif/$d/patch.diff" || { echo "$n: patch does not apply" >&2; continue; }
  extra=$(python3 -c "import json;print(json.load(open('$d/meta.json')).get('extra_args',''))")
  s=$(date +%s)
  res=$(timeout 1800 ./check $prop quick --no-evidence $extra 2>&1); rc=$?
  git -C /repo checkout -- .
  oracle=$(echo "$res" | grep -m1 -o "oracle=[a-zA-Z_:0-9]*" | cut -d= -f2)
  w=$(( $(date +%s)-s ))
  echo "$n $prop exit=$rc ${oracle:-none} ${w}s"
  echo "| $n | $prop | $rc | ${oracle:-none} | ${w}s |" >> $out
done
find replays -name '*.json' -delete
./check setup >/dev/null
