#!/bin/bash
# miri_c09.sh run <seeds> <cases> <threads>     : Miri leg of C09 (real rayon pool; Miri's scheduler is the
#                                                 simulator, -Zmiri-seed the schedule).  One process per seed, in parallel.
#                                                 Prints "MIRI-RESULT clean=<n> bad=<n>"; writes a replay file per mismatch.
# miri_c09.sh replay <file>                     : re-run exactly one (seed, case); exit 1 if it mismatches again.
set -u
HERE="$(cd "$(dirname "$0")/.." && pwd)"
FLAGS="-Zmiri-disable-stacked-borrows -Zmiri-ignore-leaks -Zmiri-disable-isolation -Zmiri-preemption-rate=0.1"
cd "$HERE/native" || exit 2
one() { # seed cases threads [only]
  local extra=""
  [ -n "${4:-}" ] && extra="--only $4"
  MIRIFLAGS="$FLAGS -Zmiri-seed=$1" timeout 3000 cargo +nightly miri run --release --offline -- miri-c09 "$2" "$3" $extra 2>&1 | grep -E "^miri-c09:|MIRI-C09|^error" | sed "s/^/seed=$1 /"
}
export -f one; export FLAGS
case "$1" in
  run)
    seeds=$2; cases=$3; threads=$4
    # build once (first invocation compiles the Miri sysroot + crate), then fan out
    one 0 1 "$threads" >/dev/null
    out=$(seq 0 $((seeds-1)) | xargs -P 16 -I{} bash -c "one {} $cases $threads")
    clean=$(echo "$out" | grep -c "miri-c09: .* 0 mismatches")
    bad=0
    mkdir -p "$HERE/replays"
    while read -r line; do
      [ -z "$line" ] && continue
      seed=$(echo "$line" | sed -n 's/^seed=\([0-9]*\) .*/\1/p')
      c=$(echo "$line" | sed -n 's/.*MIRI-C09 [A-Z]* case \([0-9]*\).*/\1/p')
      [ -z "$c" ] && { echo "HARNESS: miri error: $line" >&2; bad=$((bad+1)); continue; }
      f="$HERE/replays/C09-miri-seed${seed}-case${c}.json"
      printf '{"format":1,"property":"C09","engine":"miri-real-pool","oracle":"par_eq_ser_under_miri","miri_seed":%s,"case":%s,"cases":%s,"threads":%s,"observed":"%s"}\n' "$seed" "$c" "$cases" "$threads" "$(echo "$line" | tr -d '"' | cut -c1-200)" > "$f"
      echo "VIOLATION property=C09 replay=$f"
      echo "  engine=miri $line"
      bad=$((bad+1))
    done <<< "$(echo "$out" | grep "MIRI-C09\|error")"
    echo "MIRI-RESULT clean=$clean bad=$bad"
    ;;
  replay)
    f=$2
    seed=$(python3 -c "import json;print(json.load(open('$f'))['miri_seed'])")
    c=$(python3 -c "import json;print(json.load(open('$f'))['case'])")
    cases=$(python3 -c "import json;print(json.load(open('$f'))['cases'])")
    threads=$(python3 -c "import json;print(json.load(open('$f'))['threads'])")
    out=$(one "$seed" "$cases" "$threads" "$c")
    echo "$out"
    if echo "$out" | grep -q "MIRI-C09"; then
      echo "VIOLATION property=C09 replay=$f"; exit 1
    fi
    echo "REPLAY-PASS property=C09 file=$f"; exit 0
    ;;
esac
