#!/bin/bash
# confirm_seed.sh <worktree> <A|B|R> [test names for B...]      (env SD=<seed-dir>, default "seed")
# A: seed/demo is a cargo project with tests (cargo test); R: a cargo project with a binary (cargo run; exit status
# decides); B: seed/demo/*.rs are extra test files for crates/tests/tests.
# Confirms in the scratch worktree: demo passes unpatched; with the patch the suite still has 134 passes and the demo fails.
set -u
WT="$1"; KIND="$2"; shift 2
SD="${SD:-seed}"
cd "$WT" || exit 2
export CARGO_NET_OFFLINE=true
git checkout -q -- . 2>/dev/null
run_demo() {
  if [ "$KIND" = A ]; then
    ( cd $SD/demo && CARGO_TARGET_DIR="$WT/target/demo-$SD" cargo test --offline 2>&1 | grep -E "^test result: .*[1-9][0-9]* (passed|failed)|panicked|FAILED|failed" | head -8 )
  elif [ "$KIND" = R ]; then
    ( cd $SD/demo && CARGO_TARGET_DIR="$WT/target/demo-$SD" timeout 1200 cargo run --release --offline 2>&1 | tail -4; echo "demo exit status: ${PIPESTATUS[0]}" )
  else
    cp $SD/demo/*.rs crates/tests/tests/
    for t in "$@"; do cargo test -p walrus-tests --test "$t" --offline 2>&1 | grep -E "^test result|FAILED|failed" | head -5; done
    for f in $SD/demo/*.rs; do rm -f "crates/tests/tests/$(basename $f)"; done
  fi
}
echo "--- demo, unpatched"; run_demo "$@"
git apply $SD/patch.diff || { echo "PATCH DOES NOT APPLY"; exit 2; }
echo "--- suite, patched"; cargo nextest run --workspace --no-fail-fast --offline 2>&1 | grep -E "Summary|error(\[|:)" | head -5
echo "--- parallel build, patched"; cargo build --offline --features parallel 2>&1 | grep -E "^error|Finished" | head -3
echo "--- demo, patched"; run_demo "$@"
git checkout -q -- .
git status --short | grep -v "^??" | head
