#!/usr/bin/env python3
"""Regenerate /verif/MANIFEST.json from the table below (kept in one place so the
claimed / not-applicable split cannot drift from what ./check implements)."""
import json, os
HERE = os.path.dirname(os.path.dirname(os.path.abspath(__file__)))

BASELINE = "cd /repo/. && cargo nextest run --workspace --no-fail-fast --tool-config-file pb:/w/lib/nextest.toml --profile pb --test-threads 8 --offline || cargo test --workspace --no-fail-fast --offline"

CLAIMED = {
 "C09": dict(
   engine="shuttle-on-rayon-core-sim",
   category="exploration",
   technique="deterministic simulation: real walrus+rayon on a simulated rayon-core under seeded, recorded schedules (pool width, steals, preemption before every atomic operation, at control-flow edges and at log points inside the parallel closures; futex waits become yields), byte-equality / decision / panic-parity / deadlock oracles against the serial build linked into the same process",
   text="Seeded search over simulated schedules of the three parallel sites (function-body parse, function emit, data-count any()). Every schedule decision and steal draw is owned and recorded; a failure is minimised and replays exactly from its file. Scheduling points: task boundaries, the `log` and `on_instr_loc` seams, every atomic operation executed by code generated in the parallel build (ThreadSanitizer pass restricted to atomics, runtime defined by the harness), every k-th control-flow edge (SanitizerCoverage); blocking std primitives yield to the simulated scheduler instead of parking, and a run in which no task can move is reported as a deadlock. A clean batch is evidence, not proof.",
   note="Trusted: shuttle 0.9.3's coroutine engine; the rayon-core stub's fork-join semantics (validated against the real pool natively and under Miri in the thorough tier); LLVM's sancov and tsan passes as instrumentation only (no sanitizer runtime is linked); wasm-encoder/wat for inputs. Pool widths 1..16 only. Sequentially consistent interleavings only: weak-memory reorderings of atomics are left to the Miri leg.",
   design_ref="DESIGN.md sections 2.1-2.2, 4 (C09)"),
}

CLAIMED.update({
 "C05": dict(
   engine="storage-fault-injector",
   category="fault_enumeration",
   technique="fault injection on stored module bytes (20 enumerated structure-aware fault kinds incl. framing-preserving count inflation, empty-section and data-count faults, encodings of later proposals; nest bombs; valid modules large in one dimension; unstructured bytes; file-delivery faults) plus resource faults (2 MiB stack, 8 GiB address space, no-progress watchdog) in crash-isolated workers; differential verdict oracle against the stand-alone wasmparser validator under both feature configurations",
   text="The fault kinds are enumerated, their placements sampled from a seeded PRNG with every offset resolved in the case file. Each case is parsed under default and only_stable_features on a default-size thread stack; panic, signal and hang (no progress for 400 s, confirmed by a solo replay) are attributed to the single input by the driver and replay under the same limits. Soundness, completeness and the stable-feature gate are equalities with an independent validator and with generator-side knowledge of which proposal a module needs.",
   note="Trusted: wasmparser 0.214's Validator as the definition of validity; the harness's own feature constants; wasm-encoder/wat for victims. Sampling, not coverage-guided; messages are never compared.",
   design_ref="DESIGN.md sections 2.4, 4 (C05)"),
 "C08": dict(
   engine="lifecycle-simulator",
   category="exploration",
   technique="deterministic simulation of ambient nondeterminism: seeded hash entropy (getrandom seam), id-arena global-counter offsets, heap padding, process boundary and (a third of runs) simulated rayon schedules, over seeded emit/file-emit-with-I/O-fault/query/gc/edit/re-parse histories; byte-equality oracles: against a pristine-process reference, against the previous emit of the unmutated value, against the bytes a value was re-parsed from, and against the emit of the same mutations made without any emit or query in between; failures that need an earlier module in the same process replay with their process history",
   text="Every emit of every history must equal the bytes a pristine process produced for the same input and configuration: across processes, entropy, arena-counter offsets, addresses and schedules; repeated emits on one value; files written; parse(E).emit()==E for walrus's own output E (also after gc and edits); emit; edit; emit == edit; emit.",
   note="Trusted: the entropy seam (checked live by a canary map each run batch); one machine / toolchain / target. DWARF only where it must be a no-op or on synthesised well-formed input.",
   design_ref="DESIGN.md sections 2.3, 4 (C08)"),
 "C12": dict(
   engine="lifecycle-simulator",
   category="exploration",
   technique="deterministic simulation of operation histories (emit, file emit with injected ENOSPC/ENOENT/EISDIR, GC, re-parse under another switch vector, add/delete/remove/get) against an ordered-list reference model; conservation / exactly-once / order checked after every emit by an independent section splitter",
   text="Seeded histories on modules with 0-6 custom sections spliced at random boundaries (duplicate, empty, non-ASCII and near-miss names; payload lengths on LEB boundaries). After every emit the uninterpreted custom sections of the output must equal the model list; queries are compared step by step.",
   note="Trusted: the 40-line section splitter; the definition of 'interpreted' (name, producers, .debug*).",
   design_ref="DESIGN.md section 4 (C12)"),
 "C02": dict(
   engine="lifecycle-simulator",
   category="exploration",
   technique="deterministic simulation of operation histories on one Module value (GC, re-parse, 26 kinds of well-formed builder/edit API calls incl. edits through block_mut / VisitorMut passes, imports added after local items, custom sections with GC roots) under a configuration swarm; oracle: emit returns without unwinding and an independent wasmparser validator accepts the bytes after every emit of every history",
   text="The history x configuration dimension of the property only (the thinnest fit of the family): a Module carries tombstones, back-links and id maps from everything done to it, and the emit-time index map panics on any id a history left dangling. Seeded histories, minimised to the shortest operation list that still fails; nothing beyond validity is asserted.",
   note="Trusted: wasmparser 0.214 Validator under the harness's feature constants; the edit vocabulary is contract-preserving by construction (export names unique, ref.func targets declared, back-links maintained).",
   design_ref="DESIGN.md section 4 (C02)"),
 "C14": dict(
   engine="lifecycle-simulator",
   category="exploration",
   technique="configuration-swarm simulation: all 512 switch vectors exhaustively on fixed inputs plus seeded (input, vector, round-trip chain, injected parse failure) cases; metamorphic equalities between switch-on and switch-off executions (name / producers switches remove exactly their section; the synthetic-names switch only names anonymous items; switches without a documented output effect leave the bytes alone), a producers reference model read with an independent decoder, and an exactly-once callback counter under injected parse faults incl. failures only the validator's end() reports",
   text="Per hop up to eight executions of real parse+emit (the vector; names, producers, synthetic names, strict, code-transform, on_instr_loc, only-stable flipped) compared section by section with an independent splitter and wasmparser's name-section reader; producers content against a list model across chains of up to six round trips; on_parse counted as 1 after Ok and 0 after Err where Err is produced by the C05 storage-fault injector or by only_stable_features.",
   note="Trusted: section splitter; wasmparser::ProducersSectionReader. DWARF: absence with the switch off; presence only for synthesised well-formed DWARF.",
   design_ref="DESIGN.md section 4 (C14)"),
 "C17": dict(
   engine="lifecycle-simulator",
   category="exploration",
   technique="refinement checking of operation histories against a map/vector reference model: exhaustive enumeration of all sequences up to length 5 over a 9-operation alphabet, then seeded histories of up to 60 operations over 11 collections of up to 3 modules, with use-of-a-dead-id as the injected fault; invariants evaluated after every step",
   text="Live id resolves to its own item; dead id is refused (panic or None) and the refusal changes nothing; fresh ids differ from every id ever issued (also under arena-counter burn); iteration is the live items in creation order; adding a present function type returns the existing id; finders (by name, by item, by type, 'the only one' helpers, function imports, typed custom sections) agree with the model; ids of another module are refused.",
   note="Single-threaded by nature (the API is &mut-owned). Identity is observed through a unique fingerprint stored in each item.",
   design_ref="DESIGN.md section 4 (C17)"),
})

NOT_APPLICABLE = {
 "C01": "pure function of (module, arguments): deciding it needs side-by-side execution in a wasm interpreter (differential translation validation); no schedule, fault or walrus-side history in the statement, and no interpreter is available offline",
 "C03": "pure function of one function body; the oracle is an independent decoder diff over an exhaustive operator table (translation validation), nothing to schedule or fault",
 "C04": "pure function of one module; needs an independent section-by-section decoder diff, not a simulation (structural damage that makes output invalid is incidentally caught under C02)",
 "C06": "needs execution of the module before and after the GC pass (no interpreter; differential technique); a pure function of the module",
 "C07": "precision needs an independent reachability analysis of one emitted binary; a static analysis of one output with nothing to simulate",
 "C10": "pure function of (module with DWARF, edit); needs a DWARF reader compared with the emitted code section (translation validation); schedule-independence of the offset maps rides along in C09's probe section",
 "C11": "exactness of the code-offset map against the emitted bytes is a pure post-condition of one emit; that the map is schedule-independent is covered by C09",
 "C13": "pure function of one module; needs an independent name-section decoder joined with an input/output entity correspondence (translation validation)",
 "C15": "pure function of one built tree; the oracle is an independent flattening compared with the decoded output (translation validation)",
 "C16": "visit order / exactly-once is a pure function of one tree against a reference walk; the stack-depth clause is exercised under C05 (nest bombs at the default thread stack) but the property as a whole is not decided by this family",
 "C18": "one edit applied to one module; 'callers now run the new body' needs an expected-behaviour model or an independent decode (pure post-condition checking); both replacement calls are in C02's edit vocabulary",
 "C19": "pure function of one parse / one emit against independently decoded binaries; schedule-independence of the id->index map rides along in C09's probe section",
 "C20": "pure function of one module: validate input and output under reduced feature sets and compare (differential validation), nothing to schedule or fault",
}

PENDING = {}

def main():
    checks = []
    for pid, c in sorted(CLAIMED.items()):
        checks.append({
            "property_id": pid,
            "quick_cmd": f"./check {pid} quick",
            "thorough_cmd": f"./check {pid} thorough",
            "evidence_file": f"/verif/evidence/{pid}.json",
            "replay_cmd_template": f"./check {pid} --replay {{path}}",
            "engine": c["engine"],
            "level_claimed": {"category": c["category"], "text": c["text"], "design_ref": c["design_ref"]},
            "level_note": c["note"],
            "technique": c["technique"],
        })
    na = [{"property_id": k, "reason": v} for k, v in sorted({**NOT_APPLICABLE, **PENDING}.items())]
    man = {
        "version": 1,
        "setup_cmd": "./check setup",
        "hooks": {
            "guard": "walrus_verif",
            "enable": "no source hooks: /repo is linked unchanged through generated shadow manifests ([lib] path=/repo/src/lib.rs) in /verif/sim; the scheduler seam is the rayon-core dependency boundary ([patch.crates-io]), preemption seams are the log facade and the on_instr_loc callback, entropy seam is libc getrandom",
            "baseline_off_cmd": BASELINE,
            "source_commits": [],
            "add_only": True,
        },
        "engines": [
            {"name": "shuttle-on-rayon-core-sim", "path": "sim/rayon-core-sim, sim/harness/src/simrt.rs", "serves_properties": ["C09", "C08"], "kind_free_text": "real walrus+rayon+id-arena on a stub rayon-core whose fork-join runs on shuttle coroutines under a seeded scheduler owned by the harness (random / sticky / PCT-like / lowest / bursty), recorded and replayable; the parallel walrus build is compiled with SanitizerCoverage (edges) and the ThreadSanitizer pass restricted to atomics, both calling into the harness as scheduling points; libc `syscall` is interposed so that futex waits yield to the scheduler (deadlock = no-progress streak)"},
            {"name": "lifecycle-simulator", "path": "sim/harness/src/scen/all.rs, sim/harness/src/life.rs", "serves_properties": ["C02", "C08", "C12", "C14", "C17"], "kind_free_text": "seeded operation histories over Module values against reference models, with ambient perturbation (hash entropy, arena counter, heap layout, process boundary) and I/O faults"},
            {"name": "storage-fault-injector", "path": "sim/harness/src/faults.rs", "serves_properties": ["C05", "C14"], "kind_free_text": "structure-aware faults on stored module bytes plus resource faults (default thread stack, address-space cap, watchdog) in crash-isolated worker processes"},
        ],
        "checks": checks,
        "not_applicable": na,
        "notes": "Technique family: deterministic simulation with fault injection. See DESIGN.md. Exit codes: 0 held, 1 VIOLATION, 2 harness error.",
    }
    with open(os.path.join(HERE, "MANIFEST.json"), "w") as f:
        json.dump(man, f, indent=1)
        f.write("\n")

if __name__ == "__main__":
    main()
