#!/usr/bin/env python3
"""Regenerate the table of section 13 of DESIGN.md from seeded/*/meta.json (between the SEEDED-TABLE markers)."""
import glob, json, re
rows = []
missed = 0
for f in sorted(glob.glob('/verif/seeded/*/meta.json')):
    m = json.load(open(f))
    name = f.split('/')[-2]
    d = m.get('detected_by', {})
    caught = "%s `%s`" % (d.get('check', m['property']), d.get('oracle', '?'))
    if m.get('quick_tier_detects') is False:
        caught += " (thorough tier only)"
    s = m.get('strengthening', 'none needed')
    if s.strip().lower().startswith('none'):
        s = '–'
    else:
        missed += 1
    cell = lambda x: str(x).replace('|', '\\|').replace('\n', ' ')
    rows.append("| %s | %s | %s | %s |" % (name, cell(m.get('needs_to_manifest', '')), cell(caught), cell(s)))
table = "| seeded change | what it needs to manifest | caught by (oracle) | strengthening needed |\n|---|---|---|---|\n" + "\n".join(rows) + "\n"
p = '/verif/DESIGN.md'
s = open(p).read()
a = s.index('<!-- SEEDED-TABLE-BEGIN -->') + len('<!-- SEEDED-TABLE-BEGIN -->\n')
b = s.index('<!-- SEEDED-TABLE-END -->')
s = s[:a] + table + s[b:]
open(p, 'w').write(s)
print("%d seeded changes, %d needed a strengthening" % (len(rows), missed))
