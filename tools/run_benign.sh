#!/bin/bash
# run_benign.sh: apply every negative control under /verif/benign in turn, run the quick checks listed in its
# checks.txt, revert; every line must say exit=0.  /repo must be clean.
cd /verif || exit 2
bad=0
for d in benign/*/; do
  n=$(basename $d)
  if ! git -C /repo diff --quiet; then echo "/repo dirty" >&2; exit 2; fi
  git -C /repo apply "/verif/$d/patch.diff" || { echo "$n: patch does not apply" >&2; bad=1; continue; }
  for id in $(cat $d/checks.txt); do
    res=$(./check $id quick --no-evidence 2>&1); rc=$?
    echo "$n $id exit=$rc $(echo "$res" | tail -1 | cut -c1-100)"
    [ $rc -ne 0 ] && bad=1
  done
  git -C /repo checkout -- .
done
./check setup >/dev/null
exit $bad
