#!/bin/bash
# try_seed.sh <patch.diff> <ID> [<ID>...]: apply a seeded change to /repo, run the quick checks, ALWAYS revert.
set -u
PATCH="$1"; shift
cd /repo || exit 2
if ! git diff --quiet; then echo "/repo has uncommitted changes; refusing" >&2; exit 2; fi
git apply "$PATCH" || { echo "patch does not apply" >&2; exit 2; }
trap 'git -C /repo checkout -- . ; git -C /repo status --short' EXIT
for id in "$@"; do
  out=$(/verif/check "$id" ${TIER:-quick} --no-evidence ${EXTRA:-} 2>&1)
  rc=$?
  echo "== $id exit=$rc"
  echo "$out" | grep -E "VIOLATION|oracle=|KNOWN|HARNESS|$id (OK|VIOLATED|HARNESS)" | head -8
done
